// Harnesses for src/types.rs: C18 (DOS timestamps), C06 (path sanitisation),
// attribute->mode mapping (C03) and version/zip64 predicates (C02/C08).
#[allow(unused_imports)]
use crate::verif_kit::*;

// ---- reference: DOS date/time bit layout (APPNOTE 4.4.6 / MS-DOS) -------------------------
fn ref_dos_unpack(date: u16, time: u16) -> (u16, u8, u8, u8, u8, u8) {
    let y = 1980 + (date >> 9);
    let mo = ((date >> 5) & 0xf) as u8;
    let d = (date & 0x1f) as u8;
    let h = (time >> 11) as u8;
    let mi = ((time >> 5) & 0x3f) as u8;
    let s = ((time & 0x1f) * 2) as u8;
    (y, mo, d, h, mi, s)
}

/// C18(a): unpack then pack is the identity on all 2^32 words, and unpack agrees with the
/// APPNOTE bit layout.
// @h prop=C18 tier=quick t=300 mem=4
#[kani::proof]
fn c18_unpack_pack_identity() {
    let date: u16 = kani::any();
    let time: u16 = kani::any();
    let dt = DateTime::from_msdos(date, time);
    assert_eq!(dt.datepart(), date);
    assert_eq!(dt.timepart(), time);
    let (y, mo, d, h, mi, s) = ref_dos_unpack(date, time);
    assert_eq!(dt.year(), y);
    assert_eq!(dt.month(), mo);
    assert_eq!(dt.day(), d);
    assert_eq!(dt.hour(), h);
    assert_eq!(dt.minute(), mi);
    assert_eq!(dt.second(), s);
    kani::cover!(date == 0xffff && time == 0xffff);
    kani::cover!(dt.year() == 2107);
}

/// C18(b): the checked constructor accepts exactly the documented ranges; accepted values
/// survive pack/unpack up to the 2-second resolution.
// @h prop=C18 tier=quick t=300 mem=4
#[kani::proof]
fn c18_constructor_ranges() {
    let y: u16 = kani::any();
    let mo: u8 = kani::any();
    let d: u8 = kani::any();
    let h: u8 = kani::any();
    let mi: u8 = kani::any();
    let s: u8 = kani::any();
    let want_ok = y >= 1980 && y <= 2107 && mo >= 1 && mo <= 12 && d >= 1 && d <= 31 && h <= 23 && mi <= 59 && s <= 60;
    match DateTime::from_date_and_time(y, mo, d, h, mi, s) {
        Ok(dt) => {
            assert!(want_ok);
            assert_eq!(dt.year(), y);
            assert_eq!(dt.month(), mo);
            assert_eq!(dt.day(), d);
            assert_eq!(dt.hour(), h);
            assert_eq!(dt.minute(), mi);
            assert_eq!(dt.second(), s);
            let back = DateTime::from_msdos(dt.datepart(), dt.timepart());
            assert_eq!(back.year(), y);
            assert_eq!(back.month(), mo);
            assert_eq!(back.day(), d);
            assert_eq!(back.hour(), h);
            assert_eq!(back.minute(), mi);
            // second 60 packs to 30 -> 60; otherwise rounded down to even
            assert_eq!(back.second(), s & !1);
            kani::cover!(s == 60);
            kani::cover!(y == 2107 && mo == 12 && d == 31);
        }
        Err(()) => {
            assert!(!want_ok);
            kani::cover!(y == 2108);
            kani::cover!(y == 1979);
            kani::cover!(s == 61);
        }
    }
}

/// C18 default value is the DOS epoch and packs to (0x0021, 0).
// @h prop=C18 tier=quick t=300 mem=4
#[kani::proof]
fn c18_default_is_epoch() {
    let dt = DateTime::default();
    assert_eq!(dt.datepart(), 0x0021);
    assert_eq!(dt.timepart(), 0);
    let sel: bool = kani::any();
    kani::cover!(sel);
    kani::cover!(!sel);
}

#[cfg(feature = "time")]
fn is_leap(y: u16) -> bool {
    (y % 4 == 0 && y % 100 != 0) || y % 400 == 0
}
#[cfg(feature = "time")]
fn days_in(y: u16, m: u8) -> u8 {
    match m {
        1 | 3 | 5 | 7 | 8 | 10 | 12 => 31,
        4 | 6 | 9 | 11 => 30,
        2 => {
            if is_leap(y) {
                29
            } else {
                28
            }
        }
        _ => 0,
    }
}

/// C18(c): to_time never panics on any of the 2^32 values, errs exactly on impossible
/// calendar dates/times, and try_from(to_time(x)) == x on valid ones.
#[cfg(feature = "time")]
// @h prop=C18 tier=quick t=300 mem=4
#[kani::proof]
fn c18_to_time_total_and_inverse() {
    let date: u16 = kani::any();
    let time: u16 = kani::any();
    let dt = DateTime::from_msdos(date, time);
    let valid = dt.month() >= 1
        && dt.month() <= 12
        && dt.day() >= 1
        && dt.day() <= days_in(dt.year(), dt.month())
        && dt.hour() <= 23
        && dt.minute() <= 59
        && dt.second() <= 59;
    match dt.to_time() {
        Ok(odt) => {
            assert!(valid);
            let back = DateTime::try_from(odt);
            match back {
                Ok(b) => {
                    assert_eq!(b.datepart(), date);
                    assert_eq!(b.timepart(), time);
                    kani::cover!(dt.year() == 2107 && dt.month() == 2 && dt.day() == 28);
                    kani::cover!(dt.month() == 2 && dt.day() == 29);
                }
                Err(_) => {
                    assert!(false, "to_time output rejected by try_from");
                }
            }
        }
        Err(e) => {
            assert!(!valid);
            core::mem::forget(e);
            kani::cover!(dt.month() == 0);
            kani::cover!(dt.month() == 2 && dt.day() == 30);
            kani::cover!(dt.second() == 60);
            kani::cover!(dt.hour() == 24);
        }
    }
}

/// C18(d): conversion from calendar time accepts exactly years 1980..=2107 and carries the
/// calendar fields over unchanged.
#[cfg(feature = "time")]
// @h prop=C18 tier=quick t=300 mem=4
#[kani::proof]
fn c18_try_from_year_range() {
    let y: i32 = kani::any();
    kani::assume(y >= 1900 && y <= 2200);
    let mo: u8 = kani::any();
    kani::assume(mo >= 1 && mo <= 12);
    let d: u8 = kani::any();
    let h: u8 = kani::any();
    let mi: u8 = kani::any();
    let s: u8 = kani::any();
    let month = match Month::try_from(mo) {
        Ok(m) => m,
        Err(e) => {
            core::mem::forget(e);
            return;
        }
    };
    let date = match Date::from_calendar_date(y, month, d) {
        Ok(x) => x,
        Err(e) => {
            core::mem::forget(e);
            return;
        }
    };
    let tm = match Time::from_hms(h, mi, s) {
        Ok(x) => x,
        Err(e) => {
            core::mem::forget(e);
            return;
        }
    };
    let odt = PrimitiveDateTime::new(date, tm).assume_utc();
    match DateTime::try_from(odt) {
        Ok(dt) => {
            assert!(y >= 1980 && y <= 2107);
            assert_eq!(dt.year() as i32, y);
            assert_eq!(dt.month(), mo);
            assert_eq!(dt.day(), d);
            assert_eq!(dt.hour(), h);
            assert_eq!(dt.minute(), mi);
            assert_eq!(dt.second(), s);
            kani::cover!(y == 1980);
            kani::cover!(y == 2107);
        }
        Err(_) => {
            assert!(y < 1980 || y > 2107);
            kani::cover!(y == 1979);
            kani::cover!(y == 2108);
        }
    }
}

// ---------------------------------------------------------------------------------------------
// C06: path sanitisation against an independent lexical model (Unix host semantics)
// ---------------------------------------------------------------------------------------------
pub(crate) fn zfd_named(name: String) -> ZipFileData {
    ZipFileData {
        system: System::Unix,
        version_made_by: 20,
        encrypted: false,
        using_data_descriptor: false,
        compression_method: crate::compression::CompressionMethod::Stored,
        compression_level: None,
        last_modified_time: DateTime::default(),
        crc32: 0,
        compressed_size: 0,
        uncompressed_size: 0,
        file_name: name,
        file_name_raw: Vec::new(),
        extra_field: Vec::new(),
        file_comment: String::new(),
        header_start: 0,
        central_header_start: 0,
        data_start: AtomicU64::new(0),
        external_attributes: 0,
        large_file: false,
        aes_mode: None,
    }
}

pub(crate) fn path_byte(sel: u8) -> u8 {
    match sel {
        0 => b'a',
        1 => b'.',
        2 => b'/',
        3 => b'\\',
        _ => 0,
    }
}

/// reference for enclosed_name: Some iff no NUL, not absolute, depth never negative
pub(crate) fn ref_enclosed<const L: usize>(n: &[u8; L]) -> bool {
    let mut i = 0;
    while i < L {
        if n[i] == 0 {
            return false;
        }
        i += 1;
    }
    if L > 0 && n[0] == b'/' {
        return false;
    }
    let mut depth: i32 = 0;
    let mut start = 0;
    let mut i = 0;
    while i <= L {
        if i == L || n[i] == b'/' {
            let len = i - start;
            if len == 0 || (len == 1 && n[start] == b'.') {
                // empty or current-dir component: no effect
            } else if len == 2 && n[start] == b'.' && n[start + 1] == b'.' {
                depth -= 1;
                if depth < 0 {
                    return false;
                }
            } else {
                depth += 1;
            }
            start = i + 1;
        }
        i += 1;
    }
    true
}

/// reference for mangled_name: cut at first NUL, '\' -> '/', keep only ordinary components in
/// order, joined by '/'. Returns the length written into `out`.
fn ref_mangled<const L: usize>(n: &[u8; L], out: &mut [u8; 8]) -> usize {
    let mut end = L;
    let mut i = 0;
    while i < L {
        if n[i] == 0 {
            end = i;
            break;
        }
        i += 1;
    }
    let mut o = 0;
    let mut start = 0;
    let mut i = 0;
    while i <= end {
        let sep = i == end || n[i] == b'/' || n[i] == b'\\';
        if sep {
            let len = i - start;
            let dot = len == 1 && n[start] == b'.';
            let dotdot = len == 2 && n[start] == b'.' && n[start + 1] == b'.';
            if len > 0 && !dot && !dotdot {
                if o > 0 {
                    out[o] = b'/';
                    o += 1;
                }
                let mut k = start;
                while k < i {
                    out[o] = n[k];
                    o += 1;
                    k += 1;
                }
            }
            start = i + 1;
        }
        i += 1;
    }
    o
}

macro_rules! c06_names {
    ($name:ident, $mode:expr, $l:expr, $first:expr, $unwind:expr) => {
        #[kani::proof]
        #[kani::unwind($unwind)]
        fn $name() {
            const L: usize = $l;
            let sel: [u8; L] = kani::any();
            let mut n = [0u8; L];
            let mut i = 0;
            while i < L {
                kani::assume(sel[i] < 5);
                n[i] = path_byte(sel[i]);
                i += 1;
            }
            let first: i32 = $first;
            if first >= 0 {
                kani::assume(sel[0] == first as u8);
            }
            let s = unsafe { String::from_utf8_unchecked(n.to_vec()) };
            let f = zfd_named(s);
            let mut saw_some = false;
            let mut saw_none = false;
            let mut saw_kept = false;
            if $mode == 0 {
            // validated accessor
            let want = ref_enclosed(&n);
            match f.enclosed_name() {
                Some(p) => {
                    assert!(want, "enclosed_name accepted an escaping/absolute/NUL name");
                    let pb = p.as_os_str().as_encoded_bytes();
                    assert_eq!(pb.len(), L);
                    let mut i = 0;
                    while i < L {
                        assert_eq!(pb[i], n[i]);
                        i += 1;
                    }
                    saw_some = true;
                }
                None => {
                    assert!(!want, "enclosed_name rejected a safe name");
                    saw_none = true;
                }
            }
            } else {
            // always-succeeding accessor
            let mut exp = [0u8; 8];
            let el = ref_mangled(&n, &mut exp);
            let m = f.file_name_sanitized();
            let mb = m.as_os_str().as_encoded_bytes();
            assert_eq!(mb.len(), el);
            let mut i = 0;
            while i < el {
                assert_eq!(mb[i], exp[i]);
                i += 1;
            }
            // consequence: relative, no NUL, no '..' component (checked on the reference form)
            assert!(el == 0 || exp[0] != b'/');
            saw_kept = el > 0;
            core::mem::forget(m);
            }
            // reachability witnesses (the branch not compiled for this mode is skipped)
            kani::cover!($mode != 0 || saw_some || $first == 2); // a leading '/' is never accepted
            kani::cover!($mode != 0 || saw_none);
            kani::cover!($mode == 0 || saw_kept);
            kani::cover!($mode == 0 || !saw_kept);
            core::mem::forget(f);
        }
    };
}
/// C06 enclosed_name, every name of length 2 over the path-relevant alphabet {a . / \ NUL}
/// (25 names in one query): Some exactly when an independent lexical walk says the name is
/// relative, NUL-free and never climbs above its start, and then the name is returned unchanged.
// @h prop=C06,C07 tier=quick t=300 mem=4 name=c06_enclosed_len2
c06_names!(c06_enclosed_len2, 0, 2, -1, 4);
/// C06 enclosed_name, every name of length 3 over {a . / \ NUL} (125 names).
// @h prop=C06,C07 tier=quick t=360 mem=6 name=c06_enclosed_len3
c06_names!(c06_enclosed_len3, 0, 3, -1, 5);
/// C06 enclosed_name, names of length 4 starting with 'a'.
// @h prop=C06 tier=thorough t=900 mem=10 name=c06_enclosed_len4_a
c06_names!(c06_enclosed_len4_a, 0, 4, 0, 6);
/// C06 enclosed_name, names of length 4 starting with '.'.
// @h prop=C06,C07 tier=quick t=900 mem=10 name=c06_enclosed_len4_dot
c06_names!(c06_enclosed_len4_dot, 0, 4, 1, 6);
/// C06 enclosed_name, names of length 4 starting with '/'.
// @h prop=C06 tier=thorough t=900 mem=10 name=c06_enclosed_len4_slash
c06_names!(c06_enclosed_len4_slash, 0, 4, 2, 6);
/// C06 enclosed_name, names of length 4 starting with '\'.
// @h prop=C06 tier=thorough t=900 mem=10 name=c06_enclosed_len4_bslash
c06_names!(c06_enclosed_len4_bslash, 0, 4, 3, 6);
/// C06 mangled_name, every name of length 1 over {a . / \ NUL}: equals the reference (cut at
/// NUL, \ -> /, only ordinary components in order) and is relative.
// @h prop=C06 tier=dev t=900 mem=26 name=c06_mangled_len1
c06_names!(c06_mangled_len1, 1, 1, -1, 4);
/// C06 mangled_name, every name of length 2 over {a . / \ NUL}.
// @h prop=C06 tier=dev t=600 mem=10 name=c06_mangled_len2
c06_names!(c06_mangled_len2, 1, 2, -1, 5);
/// C06 mangled_name, every name of length 3 over {a . / \ NUL}.
// @h prop=C06 tier=dev t=600 mem=10 name=c06_mangled_len3
c06_names!(c06_mangled_len3, 1, 3, -1, 6);
