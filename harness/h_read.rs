// Harnesses for src/read.rs: extra-field parsing (C05, C08, C16), central header parsing
// (C03, C05, C19), archive opening and entry access (C03, C04, C05, C10, C15, C20).
#[allow(unused_imports)]
use crate::verif_kit::*;
#[allow(unused_imports)]
use std::io::{Read, Seek, SeekFrom, Write};

const THR32: u32 = 0xFFFF_FFFF;

fn zfd_for_extra(extra: Vec<u8>, usz: u32, csz: u32, off: u32, method: u16) -> ZipFileData {
    #[allow(deprecated)]
    ZipFileData {
        system: System::Unix,
        version_made_by: 20,
        encrypted: false,
        using_data_descriptor: false,
        compression_method: CompressionMethod::from_u16(method),
        compression_level: None,
        last_modified_time: DateTime::default(),
        crc32: 0,
        compressed_size: csz as u64,
        uncompressed_size: usz as u64,
        file_name: String::new(),
        file_name_raw: Vec::new(),
        extra_field: extra,
        file_comment: String::new(),
        header_start: off as u64,
        central_header_start: 0,
        data_start: AtomicU64::new(0),
        external_attributes: 0,
        large_file: false,
        aes_mode: None,
    }
}

macro_rules! c08_parse_zip64 {
    ($name:ident, $u:expr, $c:expr, $o:expr) => {
        #[kani::proof]
        #[kani::unwind(5)]
        fn $name() {
            const U: bool = $u;
            const C: bool = $c;
            const O: bool = $o;
            const K: usize = (U as usize) + (C as usize) + (O as usize);
            const XLEN: usize = 5 + 4 + 8 * K + 6;
            // layout: [unknown record id1, 1-byte body] [0x0001, 8K bytes] [unknown id2, 2-byte body]
            let id1: u16 = kani::any();
            let id2: u16 = kani::any();
            kani::assume(id1 != 0x0001 && id1 != 0x9901 && id2 != 0x0001 && id2 != 0x9901);
            let v: [u64; 3] = kani::any();
            let junk: [u8; 3] = kani::any();
            let mut x = [0u8; XLEN];
            put16(&mut x, 0, id1);
            put16(&mut x, 2, 1);
            x[4] = junk[0];
            put16(&mut x, 5, 0x0001);
            put16(&mut x, 7, (8 * K) as u16);
            let mut p = 9;
            if U {
                put64(&mut x, p, v[0]);
                p += 8;
            }
            if C {
                put64(&mut x, p, v[1]);
                p += 8;
            }
            if O {
                put64(&mut x, p, v[2]);
                p += 8;
            }
            put16(&mut x, p, id2);
            put16(&mut x, p + 2, 2);
            x[p + 4] = junk[1];
            x[p + 5] = junk[2];
            let usz: u32 = if U { THR32 } else { kani::any() };
            let csz: u32 = if C { THR32 } else { kani::any() };
            let off: u32 = if O { THR32 } else { kani::any() };
            kani::assume(U || usz != THR32);
            kani::assume(C || csz != THR32);
            kani::assume(O || off != THR32);
            let method: u16 = kani::any();
            let mut f = zfd_for_extra(x.to_vec(), usz, csz, off, method);
            let r = parse_extra_field(&mut f);
            assert!(r.is_ok());
            assert_eq!(f.uncompressed_size, if U { v[0] } else { usz as u64 });
            assert_eq!(f.compressed_size, if C { v[1] } else { csz as u64 });
            assert_eq!(f.header_start, if O { v[2] } else { off as u64 });
            assert_eq!(f.large_file, U || C);
            assert!(f.aes_mode.is_none());
            #[allow(deprecated)]
            let m = f.compression_method.to_u16();
            assert_eq!(m, method);
            kani::cover!(K == 0 || v[0] > 0xFFFF_FFFF || v[1] > 0xFFFF_FFFF || v[2] > 0xFFFF_FFFF);
            core::mem::forget(r);
            core::mem::forget(f);
        }
    };
}
/// C08/C03 reader: ZIP64 extended-information record from another producer, placed between two
/// unknown records (arbitrary IDs/bodies). Exactly the fields whose 32-bit value is the
/// sentinel are taken from the record, in APPNOTE order, for all 64-bit values; other fields,
/// the method and the AES state are untouched. Subset {} of (orig size, comp size, offset).
// @h prop=C08,C03 tier=quick t=540 mem=5 name=c08_parse_zip64_000
c08_parse_zip64!(c08_parse_zip64_000, false, false, false);
/// C08 reader ZIP64 record, subset {orig}.
// @h prop=C08,C03 tier=quick t=660 mem=5 name=c08_parse_zip64_100
c08_parse_zip64!(c08_parse_zip64_100, true, false, false);
/// C08 reader ZIP64 record, subset {comp}.
// @h prop=C08,C03 tier=quick t=480 mem=5 name=c08_parse_zip64_010
c08_parse_zip64!(c08_parse_zip64_010, false, true, false);
/// C08 reader ZIP64 record, subset {offset}.
// @h prop=C08,C03 tier=quick t=360 mem=5 name=c08_parse_zip64_001
c08_parse_zip64!(c08_parse_zip64_001, false, false, true);
/// C08 reader ZIP64 record, subset {orig, comp}.
// @h prop=C08,C03 tier=quick t=300 mem=5 name=c08_parse_zip64_110
c08_parse_zip64!(c08_parse_zip64_110, true, true, false);
/// C08 reader ZIP64 record, subset {orig, offset}.
// @h prop=C08,C03 tier=quick t=300 mem=5 name=c08_parse_zip64_101
c08_parse_zip64!(c08_parse_zip64_101, true, false, true);
/// C08 reader ZIP64 record, subset {comp, offset}.
// @h prop=C08,C03 tier=quick t=300 mem=5 name=c08_parse_zip64_011
c08_parse_zip64!(c08_parse_zip64_011, false, true, true);
/// C08 reader ZIP64 record, subset {orig, comp, offset}.
// @h prop=C08,C03 tier=quick t=300 mem=5 name=c08_parse_zip64_111
c08_parse_zip64!(c08_parse_zip64_111, true, true, true);

macro_rules! c05_parse_extra_any {
    ($name:ident, $n:expr, $unwind:expr) => {
        #[kani::proof]
        #[kani::unwind($unwind)]
        fn $name() {
            const N: usize = $n;
            let x: [u8; N] = kani::any();
            let usz: u32 = kani::any();
            let csz: u32 = kani::any();
            let off: u32 = kani::any();
            let mut f = zfd_for_extra(x.to_vec(), usz, csz, off, kani::any());
            let r = parse_extra_field(&mut f);
            // no panic, no overflow, terminates (unwinding assertion): that is the claim.
            kani::cover!(r.is_ok());
            kani::cover!(r.is_err());
            core::mem::forget(r);
            core::mem::forget(f);
        }
    };
}
/// C05 extra-field parser over EVERY byte string of length 4 with arbitrary size/offset
/// sentinels: terminates without panic/overflow.
// @h prop=C05 tier=quick t=300 mem=4 name=c05_parse_extra_any_4
c05_parse_extra_any!(c05_parse_extra_any_4, 4, 3);
/// C05 extra-field parser over every byte string of length 11 (an AES record fits exactly).
// @h prop=C05,C16 tier=quick t=300 mem=4 name=c05_parse_extra_any_11
c05_parse_extra_any!(c05_parse_extra_any_11, 11, 4);
/// C05 extra-field parser over every byte string of length 7.
// @h prop=C05 tier=thorough t=900 mem=10 name=c05_parse_extra_any_7
c05_parse_extra_any!(c05_parse_extra_any_7, 7, 3);
/// C05 extra-field parser over every byte string of length 13.
// @h prop=C05 tier=thorough t=1800 mem=8 name=c05_parse_extra_any_13
c05_parse_extra_any!(c05_parse_extra_any_13, 13, 5);

/// C16(a) AES extra field (0x9901): every 7-byte body maps to the documented
/// (strength, AE-version) pair and inner method, or to the documented error; a body length other
/// than 7 is refused.
// @h prop=C16 tier=quick t=300 mem=4
#[kani::proof]
#[kani::unwind(4)]
fn c16_parse_aes_extra() {
    let len: u16 = kani::any();
    let vv: u16 = kani::any();
    let vendor: u16 = kani::any();
    let strength: u8 = kani::any();
    let inner: u16 = kani::any();
    let mut x = [0u8; 11];
    put16(&mut x, 0, 0x9901);
    put16(&mut x, 2, len);
    put16(&mut x, 4, vv);
    put16(&mut x, 6, vendor);
    x[8] = strength;
    put16(&mut x, 9, inner);
    let mut f = zfd_for_extra(x.to_vec(), 1, 1, 0, 99);
    let r = parse_extra_field(&mut f);
    let good = len == 7 && vendor == 0x4541 && (vv == 1 || vv == 2) && (strength >= 1 && strength <= 3);
    match &r {
        Ok(()) => {
            assert!(good);
            match f.aes_mode {
                Some((mode, ver)) => {
                    assert!(match mode {
                        AesMode::Aes128 => strength == 1,
                        AesMode::Aes192 => strength == 2,
                        AesMode::Aes256 => strength == 3,
                    });
                    assert!(match ver {
                        AesVendorVersion::Ae1 => vv == 1,
                        AesVendorVersion::Ae2 => vv == 2,
                    });
                }
                None => assert!(false, "AES extra accepted but no mode recorded"),
            }
            #[allow(deprecated)]
            let m = f.compression_method.to_u16();
            assert_eq!(m, inner);
            kani::cover!(strength == 3 && vv == 2);
            kani::cover!(strength == 1 && vv == 1);
        }
        Err(e) => {
            assert!(!good);
            match e {
                ZipError::UnsupportedArchive(_) => assert!(len != 7),
                ZipError::InvalidArchive(_) => assert!(len == 7),
                _ => assert!(false, "unexpected error kind"),
            }
            assert!(f.aes_mode.is_none());
            kani::cover!(len == 7 && vendor != 0x4541);
            kani::cover!(len != 7);
        }
    }
    core::mem::forget(r);
    core::mem::forget(f);
}

// =============================================================================================
// Seekable reader on archives produced by the independent builder (ref_build)
// =============================================================================================

/// reference for unix_mode(): APPNOTE external attributes by host system
fn ref_unix_mode(made_by: u16, eattr: u32) -> Option<u32> {
    if eattr == 0 {
        return None;
    }
    match made_by >> 8 {
        3 => Some(eattr >> 16),
        0 => {
            let mut m = if eattr & 0x10 != 0 { 0o040000 | 0o775 } else { 0o100000 | 0o664 };
            if eattr & 1 != 0 {
                m &= 0o555;
            }
            Some(m)
        }
        _ => None,
    }
}

/// expected decoding of a 1-byte name
fn ref_name1(b: u8, utf8: bool) -> char {
    if b < 0x80 {
        b as char
    } else if utf8 {
        '\u{FFFD}'
    } else {
        char::from_u32(REF_CP437[b as usize]).unwrap()
    }
}

macro_rules! c03_open_single {
    ($name:ident, MODE=$mode:expr, J=$j:expr, LX=$lx:expr, P=$p:expr, CX=$cx:expr, FC=$fc:expr, AC=$ac:expr, G=$g:expr, unwind=$unwind:expr) => {
        #[kani::proof]
        #[kani::unwind($unwind)]
        #[kani::stub(crc32fast::Hasher::internal_new_specialized, crate::verif_kit::stub_crc_specialized)]
        #[kani::stub(std::hash::RandomState::new, crate::verif_kit::stub_random_state)]
        #[kani::stub(std::collections::HashMap::insert, crate::verif_kit::stub_hashmap_insert)]
        fn $name() {
            const META: bool = $mode == 0;
            const READ: bool = $mode == 1;
            const J: usize = $j;
            const LX: usize = $lx;
            const P: usize = $p;
            const CX: usize = $cx;
            const FC: usize = $fc;
            const AC: usize = $ac;
            const G: usize = $g;
            const LOCAL_AT: usize = J;
            const DATA_AT: usize = LOCAL_AT + 30 + 1 + LX;
            const CD_AT: usize = DATA_AT + P;
            const EOCD_AT: usize = CD_AT + 46 + 1 + CX + FC;
            const LEN: usize = EOCD_AT + 22 + AC + G;
            const N: usize = 128;
            assert!(LEN <= N);
            let mut b = [0u8; N];
            let junk: [u8; J] = kani::any();
            let name: [u8; 1] = kani::any();
            let lextra: [u8; LX] = kani::any();
            let payload: [u8; P] = kani::any();
            let cextra: [u8; CX] = kani::any();
            let fcomment: [u8; FC] = kani::any();
            let acomment: [u8; AC] = kani::any();
            let garbage: [u8; G] = kani::any();
            let mut v = if META {
                EntryVals::any()
            } else {
                EntryVals { made_by: 0x031e, needed: 20, flags: kani::any(), method: 0, time: 0x6000, date: 0x5021, crc: 0, csize: 0, usize_: 0, disk: 0, iattr: 0, eattr: 0o100644 << 16, offset: 0 }
            };
            if !META {
                kani::assume(v.flags & !((1 << 3) | (1 << 11)) == 0);
            }
            // a well-formed single-disk stored entry without encryption
            v.flags &= !(1 | (1 << 6) | (1 << 13));
            v.method = 0;
            v.csize = P as u32;
            v.usize_ = P as u32;
            v.crc = ref_crc32(&payload, P);
            v.offset = 0; // relative to the start of the archive proper (after the junk)
            let dd = v.flags & (1 << 3) != 0;
            // central extra: an unknown record (never ZIP64/AES) when present
            let mut cx = cextra;
            if CX >= 4 {
                let id = le16(&cx, 0);
                kani::assume(id != 0x0001 && id != 0x9901);
                put16(&mut cx, 2, (CX - 4) as u16);
            }
            let mut lx = lextra;
            if LX >= 4 {
                put16(&mut lx, 2, (LX - 4) as u16);
            }
            let mut i = 0;
            while i < J {
                b[i] = junk[i];
                i += 1;
            }
            // local header: under bit 3 the sizes/crc are zero there (central is authoritative)
            let p = put_local(&mut b, LOCAL_AT, &v, if dd { 0 } else { v.crc }, if dd { 0 } else { v.csize }, if dd { 0 } else { v.usize_ }, &name, &lx);
            assert_eq!(p, DATA_AT);
            let mut i = 0;
            while i < P {
                b[DATA_AT + i] = payload[i];
                i += 1;
            }
            let p = put_central(&mut b, CD_AT, &v, &name, &cx, &fcomment);
            assert_eq!(p, EOCD_AT);
            let p = put_eocd(&mut b, EOCD_AT, 0, 0, 1, 1, (EOCD_AT - CD_AT) as u32, (CD_AT - J) as u32, &acomment);
            let mut i = 0;
            while i < G {
                b[p + i] = garbage[i];
                i += 1;
            }
            // the comment and the garbage must not contain an end-record signature themselves
            // (format-inherent ambiguity): with <= 3 bytes they cannot.
            let src = Src::<N>::new(b, LEN);
            let mut ar = match ZipArchive::new(src) {
                Ok(a) => a,
                Err(e) => {
                    core::mem::forget(e);
                    assert!(false, "well-formed archive rejected");
                    return;
                }
            };
            assert_eq!(ar.len(), 1);
            assert_eq!(ar.offset(), J as u64);
            {
                let c = ar.comment();
                assert_eq!(c.len(), AC);
                let mut i = 0;
                while i < AC {
                    assert_eq!(c[i], acomment[i]);
                    i += 1;
                }
            }
            if META {
            match ar.by_index(1) {
                Err(ZipError::FileNotFound) => {}
                Err(e) => {
                    core::mem::forget(e);
                    assert!(false, "out-of-range index: wrong error");
                }
                Ok(f) => {
                    core::mem::forget(f);
                    assert!(false, "out-of-range index succeeded");
                }
            }
            }
            let utf8 = v.flags & (1 << 11) != 0;
            let mut f = match ar.by_index(0) {
                Ok(f) => f,
                Err(e) => {
                    core::mem::forget(e);
                    assert!(false, "entry of a well-formed archive could not be opened");
                    return;
                }
            };
            {
                let mut it = f.name().chars();
                assert_eq!(it.next(), Some(ref_name1(name[0], utf8)));
                assert!(it.next().is_none());
            }
            assert_eq!(f.name_raw().len(), 1);
            assert_eq!(f.name_raw()[0], name[0]);
            assert!(f.compression() == CompressionMethod::Stored);
            assert_eq!(f.crc32(), v.crc);
            assert_eq!(f.size(), P as u64);
            assert_eq!(f.compressed_size(), P as u64);
            assert_eq!(f.last_modified().datepart(), v.date);
            assert_eq!(f.last_modified().timepart(), v.time);
            assert_eq!(f.unix_mode(), ref_unix_mode(v.made_by, v.eattr));
            assert_eq!(f.version_made_by(), ((v.made_by as u8) / 10, (v.made_by as u8) % 10));
            assert_eq!(f.header_start(), LOCAL_AT as u64);
            assert_eq!(f.central_header_start(), CD_AT as u64);
            assert_eq!(f.data_start(), DATA_AT as u64);
            {
                let x = f.extra_data();
                assert_eq!(x.len(), CX);
                let mut i = 0;
                while i < CX {
                    assert_eq!(x[i], cx[i]);
                    i += 1;
                }
            }
            // content: exactly the payload, then EOF forever
            if READ {
            let mut got = [0u8; 4];
            let mut n = 0;
            let mut call = 0;
            while call < P + 2 {
                let mut one = [0u8; 1];
                match f.read(&mut one) {
                    Ok(0) => {
                        assert_eq!(n, P);
                    }
                    Ok(_) => {
                        assert!(n < P);
                        got[n] = one[0];
                        n += 1;
                    }
                    Err(e) => {
                        core::mem::forget(e);
                        assert!(false, "read of a well-formed entry failed");
                    }
                }
                call += 1;
            }
            assert_eq!(n, P);
            let mut i = 0;
            while i < P {
                assert_eq!(got[i], payload[i]);
                i += 1;
            }
            }
            kani::cover!(dd);
            kani::cover!(!dd && utf8 && name[0] >= 0x80);
            kani::cover!(!META || (v.made_by >> 8 == 0 && v.eattr & 0x11 == 0x11));
            core::mem::forget(f);
            core::mem::forget(ar);
        }
    };
}
/// C03/C19 seekable reader, metadata: single-entry archive from the independent builder with
/// 2 bytes of prepended junk, 1-byte name (UTF-8 flag symbolic), 2-byte stored payload, 1-byte
/// archive comment; ALL header values symbolic (made-by system/version, flags incl. bit 3 with
/// zeroed local sizes, DOS time/date, attributes, disk/internal attrs). Every accessor equals
/// the builder's value (offsets shifted by the junk; offset() == junk length), out-of-range
/// index -> FileNotFound.
// @h prop=C03,C19,C01 tier=quick t=1260 mem=16 name=c03_open_meta_j2
c03_open_single!(c03_open_meta_j2, MODE=0, J=2, LX=0, P=2, CX=0, FC=0, AC=1, G=0, unwind=8);

macro_rules! c03_entry_read {
    ($name:ident, J=$j:expr, LX=$lx:expr, P=$p:expr, unwind=$unwind:expr) => {
        #[kani::proof]
        #[kani::unwind($unwind)]
        #[kani::stub(crc32fast::Hasher::internal_new_specialized, crate::verif_kit::stub_crc_specialized)]
        fn $name() {
            const J: usize = $j;
            const LX: usize = $lx;
            const P: usize = $p;
            const DATA_AT: usize = J + 30 + 2 + LX;
            const LEN: usize = DATA_AT + P + 3;
            const N: usize = 64;
            let mut b: [u8; N] = kani::any(); // everything around the entry is arbitrary
            let name: [u8; 2] = kani::any();
            let lextra: [u8; LX] = kani::any();
            let payload: [u8; P] = kani::any();
            let v = EntryVals::any();
            // the local header's own lengths (2-byte name, LX extra) differ from the central
            // record's (empty name, no extra): data start must come from the local header
            let p = put_local(&mut b, J, &v, kani::any(), kani::any(), kani::any(), &name, &lextra);
            assert_eq!(p, DATA_AT);
            let mut i = 0;
            while i < P {
                b[DATA_AT + i] = payload[i];
                i += 1;
            }
            let mut src = Src::<N>::new(b, LEN);
            let declared_crc: u32 = kani::any();
            let mut data = zfd_for_extra(Vec::new(), kani::any(), P as u32, J as u32, 0);
            data.crc32 = declared_crc;
            data.using_data_descriptor = kani::any();
            let take = match find_content(&data, &mut src) {
                Ok(t) => t,
                Err(e) => {
                    core::mem::forget(e);
                    assert!(false, "find_content failed on a well-formed local header");
                    return;
                }
            };
            assert_eq!(data.data_start.load(), DATA_AT as u64);
            assert_eq!(take.limit(), P as u64);
            // exactly what by_index does next
            let cr = match make_crypto_reader(
                data.compression_method,
                data.crc32,
                data.last_modified_time,
                data.using_data_descriptor,
                take,
                None,
                None,
                #[cfg(feature = "aes-crypto")]
                data.compressed_size,
            ) {
                Ok(Ok(c)) => c,
                Ok(Err(e)) => {
                    core::mem::forget(e);
                    assert!(false, "plain entry asked for a password");
                    return;
                }
                Err(e) => {
                    core::mem::forget(e);
                    assert!(false, "stored entry refused");
                    return;
                }
            };
            let mut f = ZipFile { data: Cow::Borrowed(&data), crypto_reader: Some(cr), reader: ZipFileReader::NoReader };
            let mut got = [0u8; 4];
            let mut n = 0;
            let mut eof_ok = false;
            let mut errored = false;
            let mut call = 0;
            while call < P + 2 {
                let mut one = [0u8; 1];
                match f.read(&mut one) {
                    Ok(0) => {
                        assert_eq!(n, P);
                        assert!(!errored);
                        eof_ok = true;
                    }
                    Ok(_) => {
                        assert!(n < P && !eof_ok);
                        got[n] = one[0];
                        n += 1;
                    }
                    Err(e) => {
                        core::mem::forget(e);
                        errored = true;
                        assert_eq!(n, P);
                    }
                }
                call += 1;
            }
            assert_eq!(n, P);
            let mut i = 0;
            while i < P {
                assert_eq!(got[i], payload[i]);
                i += 1;
            }
            let real = ref_crc32(&payload, P);
            // C04 on the real path: success to EOF <=> declared CRC equals the data's CRC
            assert_eq!(eof_ok, real == declared_crc);
            assert_eq!(errored, real != declared_crc);
            kani::cover!(eof_ok);
            kani::cover!(errored);
            core::mem::forget(f);
            core::mem::forget(data);
        }
    };
}
/// C03/C04/C01 entry data path as by_index drives it (find_content -> make_crypto_reader ->
/// ZipFile::read -> make_reader -> Crc32Reader): local header at offset 2 whose own name/extra
/// lengths (2, 0) differ from the central record's; all local header values, the surrounding
/// bytes, the 2-byte payload and the DECLARED CRC are symbolic. data_start comes from the
/// local header; reading returns exactly the payload; the read completes with Ok(0) iff the
/// declared CRC equals the bitwise-reference CRC of the payload, otherwise it errors at EOF.
// @h prop=C03,C04,C01 tier=quick t=1200 mem=9 name=c03_entry_read_j2_x0
c03_entry_read!(c03_entry_read_j2_x0, J=2, LX=0, P=2, unwind=8);
/// C03/C04 entry data path with a 4-byte local extra field the central record does not have.
// @h prop=C03,C04 tier=thorough t=1800 mem=10 name=c03_entry_read_j0_x4
c03_entry_read!(c03_entry_read_j0_x4, J=0, LX=4, P=2, unwind=8);

// =============================================================================================
// Opening entries of a hostile archive: never a panic (C05), documented decisions (C15)
// =============================================================================================
fn any_aes_mode() -> Option<(AesMode, AesVendorVersion)> {
    let k: u8 = kani::any();
    kani::assume(k < 7);
    let ver = if k & 1 == 0 { AesVendorVersion::Ae1 } else { AesVendorVersion::Ae2 };
    match k >> 1 {
        0 => None,
        1 => Some((AesMode::Aes128, ver)),
        2 => Some((AesMode::Aes192, ver)),
        _ => Some((AesMode::Aes256, ver)),
    }
}

fn archive_of<const N: usize>(data: ZipFileData, src: Src<N>) -> ZipArchive<Src<N>> {
    ZipArchive {
        reader: src,
        shared: Arc::new(zip_archive::Shared { files: vec![data], names_map: HashMap::new(), offset: 0, comment: Vec::new() }),
    }
}

fn is_password_required(e: &ZipError) -> bool {
    // message identity without memcmp: length (33) and first byte are unique among the
    // crate's UnsupportedArchive messages
    match e {
        ZipError::UnsupportedArchive(s) => s.len() == ZipError::PASSWORD_REQUIRED.len() && s.as_bytes()[0] == b'P',
        _ => false,
    }
}

/// a one-entry archive whose central metadata and local header region are hostile
fn hostile_archive() -> (ZipArchive<Src<64>>, bool, bool, u16) {
    const N: usize = 64;
    let mut b: [u8; N] = kani::any();
    put32(&mut b, 0, SIG_LOCAL);
    let nl: u16 = kani::any();
    let xl: u16 = kani::any();
    kani::assume(nl <= 2 && xl <= 2);
    put16(&mut b, 26, nl);
    put16(&mut b, 28, xl);
    let src = Src::<N>::new(b, N);
    let mut data = zfd_for_extra(Vec::new(), kani::any(), kani::any(), 0, kani::any());
    data.encrypted = kani::any();
    data.using_data_descriptor = kani::any();
    data.aes_mode = any_aes_mode();
    data.crc32 = kani::any();
    kani::assume(data.compressed_size <= 24);
    let encrypted = data.encrypted;
    let has_aes = data.aes_mode.is_some();
    #[allow(deprecated)]
    let method = data.compression_method.to_u16();
    (archive_of(data, src), encrypted, has_aes, method)
}

/// C05/C15 by_index on a hostile entry: every combination of (encrypted flag, AES extra present
/// or not and which, method number incl. 99/unknown, data-descriptor flag, sizes <= 24, CRC) over
/// an arbitrary 64-byte local header region: by_index and the first read return a value or an
/// error - no panic, no unwrap failure, no overflow; an encrypted entry without a password is
/// refused with exactly the password-required error.
// @h prop=C05,C15 tier=quick feat=base t=480 mem=4
#[kani::proof]
#[kani::unwind(8)]
#[kani::stub(crc32fast::Hasher::internal_new_specialized, crate::verif_kit::stub_crc_specialized)]
#[kani::stub(std::hash::RandomState::new, crate::verif_kit::stub_random_state)]
fn c05_open_entry_nopw() {
    let (mut ar, encrypted, _has_aes, method) = hostile_archive();
    match ar.by_index(0) {
        Ok(mut f) => {
            assert!(!encrypted, "encrypted entry opened without a password");
            let mut one = [0u8; 1];
            let r = f.read(&mut one);
            kani::cover!(r.is_ok());
            core::mem::forget(r);
            core::mem::forget(f);
        }
        Err(e) => {
            if encrypted {
                // C15(f): exactly the password-required error
                assert!(is_password_required(&e));
            }
            kani::cover!(encrypted);
            kani::cover!(!encrypted && method != 0);
            core::mem::forget(e);
        }
    }
    core::mem::forget(ar);
}

/// C05 by_index_raw on the same hostile entries: always succeeds for an in-range header and
/// never panics on read.
// @h prop=C05,C14 tier=quick t=300 mem=4
#[kani::proof]
#[kani::unwind(8)]
#[kani::stub(crc32fast::Hasher::internal_new_specialized, crate::verif_kit::stub_crc_specialized)]
#[kani::stub(std::hash::RandomState::new, crate::verif_kit::stub_random_state)]
fn c05_open_entry_raw() {
    let (mut ar, _encrypted, _has_aes, _method) = hostile_archive();
    match ar.by_index_raw(0) {
        Ok(mut f) => {
            let mut one = [0u8; 1];
            let r = f.read(&mut one);
            kani::cover!(r.is_ok());
            core::mem::forget(r);
            core::mem::forget(f);
        }
        Err(e) => {
            core::mem::forget(e);
            assert!(false, "raw access to an in-range local header failed");
        }
    }
    core::mem::forget(ar);
}

/// C05/C15 by_index_decrypt(password) on the same hostile entries (short encrypted entries,
/// AES extra without the flag, ...): value, InvalidPassword or error - never a panic.
// @h prop=C05,C15,C16 tier=dev feat=base,aes t=1800 mem=10
#[kani::proof]
#[kani::unwind(36)]
#[kani::stub(crc32fast::Hasher::internal_new_specialized, crate::verif_kit::stub_crc_specialized)]
#[kani::stub(std::hash::RandomState::new, crate::verif_kit::stub_random_state)]
#[cfg_attr(feature = "aes-crypto", kani::stub(pbkdf2::pbkdf2, crate::verif_kit::stub_pbkdf2_any))]
#[cfg_attr(feature = "aes-crypto", kani::stub(core::arch::x86_64::__cpuid, crate::verif_kit::stub_cpuid))]
#[cfg_attr(feature = "aes-crypto", kani::stub(core::arch::x86_64::__cpuid_count, crate::verif_kit::stub_cpuid_count))]
fn c05_open_entry_pw() {
    let (mut ar, encrypted, has_aes, _method) = hostile_archive();
    let pw: [u8; 1] = kani::any();
    match ar.by_index_decrypt(0, &pw) {
        Ok(Ok(mut f)) => {
            let mut one = [0u8; 1];
            let r = f.read(&mut one);
            kani::cover!(r.is_ok() && !encrypted);
            core::mem::forget(r);
            core::mem::forget(f);
        }
        Ok(Err(_)) => {
            assert!(encrypted || has_aes);
            kani::cover!(true);
        }
        Err(e) => {
            kani::cover!(true);
            core::mem::forget(e);
        }
    }
    core::mem::forget(ar);
}


/// The ZipFile that by_index_raw hands out once find_content has positioned the reader on the
/// entry data (c03_entry_read_* show data start and limit): metadata borrowed, no crypto
/// reader, raw reader limited to the compressed size. Used by the raw-copy harness in h_write.rs.
pub(crate) fn mk_raw_zipfile<'a>(data: &'a ZipFileData, reader: &'a mut dyn Read) -> ZipFile<'a> {
    let n = data.compressed_size;
    ZipFile { data: Cow::Borrowed(data), crypto_reader: None, reader: ZipFileReader::Raw(reader.take(n)) }
}

// =============================================================================================
// C20: cloned handles are independent (single thread; threads are outside the technique)
// =============================================================================================
/// C20 two handles on the same archive (ZipArchive::clone: own reader copy, metadata shared
/// behind the reference count, data start cached in the shared relaxed atomic): an archive state
/// with 1 byte of prepended data (constructed as ZipArchive::new leaves it - c03_open_meta_* -
/// with concrete well-formed local headers and symbolic payload bytes with their reference
/// CRC); handle A opens entry 0 and reads its first byte; handle B (the clone) opens the SAME
/// entry while A is in the middle of it - its data start is by then cached in the shared
/// metadata - and reads the first byte; A resumes and reads the second byte: every handle sees
/// exactly the bytes and data_start() it would see alone.
// @h prop=C20,C03 tier=quick t=600 mem=6 uws="fn:^std::ptr::drop_glue::<std::io::Error>$:2"
#[kani::proof]
#[kani::unwind(8)]
#[kani::stub(crc32fast::Hasher::internal_new_specialized, crate::verif_kit::stub_crc_specialized)]
#[kani::stub(std::hash::RandomState::new, crate::verif_kit::stub_random_state)]
fn c20_clones_interleaved() {
    const N: usize = 96;
    const J: usize = 1;
    let mut b = [0u8; N];
    b[0] = kani::any();
    let p0: [u8; 2] = kani::any();
    let p1: [u8; 1] = kani::any();
    let v = EntryVals { made_by: 0x031e, needed: 20, flags: 0, method: 0, time: 0x6000, date: 0x5021, crc: 0, csize: 0, usize_: 0, disk: 0, iattr: 0, eattr: 0, offset: 0 };
    let l0 = J;
    let d0 = put_local(&mut b, l0, &v, 0, 2, 2, b"a", &[]);
    b[d0] = p0[0];
    b[d0 + 1] = p0[1];
    let l1 = d0 + 2;
    let d1 = put_local(&mut b, l1, &v, 0, 1, 1, b"b", &[0xfe, 0xca, 0, 0]);
    b[d1] = p1[0];
    let end = d1 + 1;
    let mut e0 = zfd_for_extra(Vec::new(), 2, 2, l0 as u32, 0);
    e0.crc32 = ref_crc32(&p0, 2);
    let mut e1 = zfd_for_extra(Vec::new(), 1, 1, l1 as u32, 0);
    e1.crc32 = ref_crc32(&p1, 1);
    let src = Src::<N>::new(b, end);
    let mut a = ZipArchive {
        reader: src,
        shared: Arc::new(zip_archive::Shared { files: vec![e0, e1], names_map: HashMap::new(), offset: J as u64, comment: Vec::new() }),
    };
    let mut bh = a.clone();
    macro_rules! open {
        ($h:expr, $i:expr) => {
            match $h.by_index($i) {
                Ok(f) => f,
                Err(e) => {
                    core::mem::forget(e);
                    assert!(false, "entry could not be opened");
                    return;
                }
            }
        };
    }
    macro_rules! rd {
        ($f:expr, $want:expr) => {{
            let mut one = [0u8; 1];
            match $f.read(&mut one) {
                Ok(m) => {
                    let w: Option<u8> = $want;
                    match w {
                        Some(x) => {
                            assert_eq!(m, 1);
                            assert_eq!(one[0], x);
                        }
                        None => assert_eq!(m, 0),
                    }
                }
                Err(e) => {
                    core::mem::forget(e);
                    assert!(false, "read failed");
                }
            }
        }};
    }
    {
        let mut fa = open!(a, 0);
        assert_eq!(fa.data_start(), d0 as u64);
        rd!(fa, Some(p0[0]));
        // the same entry through the clone while A is in the middle of it: the data start is
        // already cached in the shared metadata, the clone has its own reader position
        let mut fb = open!(bh, 0);
        assert_eq!(fb.data_start(), d0 as u64);
        rd!(fb, Some(p0[0]));
        rd!(fa, Some(p0[1]));
        core::mem::forget(fa);
        core::mem::forget(fb);
    }
    kani::cover!(true);
    core::mem::forget(a);
    core::mem::forget(bh);
}

// =============================================================================================
// C07: extract() hands only confined paths to the file system (fs calls are environment stubs)
// =============================================================================================
pub(crate) mod fsenv {
    //! File-system environment for the extract() harness: every stub records its call and
    //! asserts that the path it is handed stays lexically inside the extraction root.
    use std::io;
    use std::path::Path;
    pub const ROOT: &[u8] = b"/r";
    pub static mut DIR_CALLS: u8 = 0;
    pub static mut FILE_CALLS: u8 = 0;
    pub static mut PERM_CALLS: u8 = 0;
    pub static mut LAST: [u8; 8] = [0; 8];
    pub static mut LAST_LEN: usize = 0;

    /// lexical confinement: `p` = ROOT, or ROOT + '/' + a relative remainder that never climbs
    /// above ROOT and has no NUL
    pub fn inside(p: &[u8]) -> bool {
        if p.len() < 2 || p[0] != ROOT[0] || p[1] != ROOT[1] {
            return false;
        }
        if p.len() == 2 {
            return true;
        }
        if p[2] != b'/' {
            return false;
        }
        let mut depth: i32 = 0;
        let mut start = 3;
        let mut i = 3;
        while i <= p.len() {
            if i == p.len() || p[i] == b'/' {
                let len = i - start;
                if len == 2 && p[start] == b'.' && p[start + 1] == b'.' {
                    depth -= 1;
                    if depth < 0 {
                        return false;
                    }
                } else if len > 0 && !(len == 1 && p[start] == b'.') {
                    depth += 1;
                }
                start = i + 1;
            } else if p[i] == 0 {
                return false;
            }
            i += 1;
        }
        true
    }
    fn note(p: &Path) {
        let b = p.as_os_str().as_encoded_bytes();
        assert!(inside(b), "extract() handed the file system a path outside the target directory");
        unsafe {
            let mut i = 0;
            while i < b.len() && i < 8 {
                LAST[i] = b[i];
                i += 1;
            }
            LAST_LEN = b.len();
        }
    }
    pub fn create_dir_all<P: AsRef<Path>>(path: P) -> io::Result<()> {
        note(path.as_ref());
        unsafe { DIR_CALLS += 1 };
        Ok(())
    }
    /// a real `File` cannot be fabricated (its Drop closes a descriptor through FFI): creation
    /// is recorded, checked, and then fails - extract() stops at its first file
    pub fn file_create<P: AsRef<Path>>(path: P) -> io::Result<std::fs::File> {
        note(path.as_ref());
        unsafe { FILE_CALLS += 1 };
        Err(io::Error::from(io::ErrorKind::Other))
    }
    pub fn set_permissions<P: AsRef<Path>>(path: P, _perm: std::fs::Permissions) -> io::Result<()> {
        note(path.as_ref());
        unsafe { PERM_CALLS += 1 };
        Ok(())
    }
    pub fn exists(p: &Path) -> bool {
        let b = p.as_os_str().as_encoded_bytes();
        assert!(inside(b), "extract() probed a path outside the target directory");
        kani::any()
    }
}

macro_rules! c07_extract {
    ($name:ident, $l:expr, $unwind:expr) => {
        #[kani::proof]
        #[kani::unwind($unwind)]
        #[kani::stub(crc32fast::Hasher::internal_new_specialized, crate::verif_kit::stub_crc_specialized)]
        #[kani::stub(std::hash::RandomState::new, crate::verif_kit::stub_random_state)]
        #[kani::stub(std::fs::create_dir_all, fsenv::create_dir_all)]
        #[kani::stub(std::fs::File::create, fsenv::file_create)]
        #[kani::stub(std::fs::set_permissions, fsenv::set_permissions)]
        #[kani::stub(std::path::Path::exists, fsenv::exists)]
        fn $name() {
            const L: usize = $l;
            const N: usize = 48;
            let sel: [u8; L] = kani::any();
            let mut n = [0u8; L];
            let mut i = 0;
            while i < L {
                kani::assume(sel[i] < 5);
                n[i] = crate::types::verif_h::path_byte(sel[i]);
                i += 1;
            }
            let s = unsafe { String::from_utf8_unchecked(n.to_vec()) };
            let mut data = crate::types::verif_h::zfd_named(s);
            data.external_attributes = kani::any();
            data.compressed_size = 0;
            data.uncompressed_size = 0;
            data.header_start = 0;
            // concrete well-formed local header at offset 0 (name length L, no extra, no data)
            let mut b = [0u8; N];
            let v = EntryVals { made_by: 0x031e, needed: 20, flags: 0, method: 0, time: 0, date: 0x21, crc: 0, csize: 0, usize_: 0, disk: 0, iattr: 0, eattr: 0, offset: 0 };
            put_local(&mut b, 0, &v, 0, 0, 0, &n, &[]);
            let mut ar = archive_of(data, Src::<N>::new(b, N));
            let r = ar.extract("/r");
            let safe = crate::types::verif_h::ref_enclosed(&n);
            let (dirs, files, perms, last, last_len) = unsafe { (fsenv::DIR_CALLS, fsenv::FILE_CALLS, fsenv::PERM_CALLS, fsenv::LAST, fsenv::LAST_LEN) };
            if !safe {
                // unsafe name: an error, and the file system was never touched
                assert!(r.is_err(), "extract() accepted an unsafe entry name");
                assert!(dirs == 0 && files == 0 && perms == 0, "file system touched for an unsafe entry name");
            } else if n[L - 1] == b'/' {
                // directory entry: created (with parents) at root/name, never as a file
                assert!(files == 0);
                assert!(dirs >= 1);
            } else {
                // file entry: created at exactly root/name (then the environment refuses it)
                assert_eq!(files, 1, "a file entry was not created as a file");
                assert!(r.is_err());
                assert_eq!(last_len, 3 + L);
                assert!(last[0] == b'/' && last[1] == b'r' && last[2] == b'/');
                let mut i = 0;
                while i < L {
                    assert_eq!(last[3 + i], n[i]);
                    i += 1;
                }
            }
            kani::cover!(!safe);
            kani::cover!(safe && n[L - 1] == b'/');
            kani::cover!(safe && n[L - 1] == b'\\');
            core::mem::forget(r);
            core::mem::forget(ar);
        }
    };
}
/// C07 ZipArchive::extract on a one-entry archive state (constructed as ZipArchive::new leaves
/// it; empty stored entry, symbolic external attributes) for EVERY entry name of length 2 over
/// the path-relevant byte classes {a . / \ NUL}, with the file system replaced by environment
/// stubs (create_dir_all, File::create, set_permissions, Path::exists) that assert that every
/// path they are handed stays lexically inside the target directory: an unsafe name yields Err
/// before any file-system call; a safe name ending in '/' is created as a directory and never
/// as a file; any other safe name is created as a FILE at exactly target/name (a trailing
/// backslash does not make a directory).
// @h prop=C07,C06 tier=dev t=1200 mem=26 name=c07_extract_len2 uws="fn:^std::ptr::drop_glue::<std::io::Error>$:2"
c07_extract!(c07_extract_len2, 2, 6);
/// C07 as above for every entry name of length 1.
// @h prop=C07,C06 tier=dev t=600 mem=12 name=c07_extract_len1 uws="fn:^std::ptr::drop_glue::<std::io::Error>$:2"
c07_extract!(c07_extract_len1, 1, 5);

/// C15 make_crypto_reader picks the password check the format prescribes: for a ZipCrypto entry
/// opened with the (empty) password - key state = the APPNOTE initial constants - and an
/// arbitrary 12-byte encryption header, the entry is accepted iff the decrypted 12th byte equals
/// the high byte of the CRC, or - exactly when the data-descriptor flag is set (Info-ZIP variant)
/// - the high byte of the DOS time; for EVERY CRC (incl. 0), time, flag and header.
// @h prop=C15 tier=dev t=900 mem=6 uws="fn:^std::ptr::drop_glue::<std::io::Error>$:2"
#[kani::proof]
#[kani::unwind(14)]
fn c15_validator_choice() {
    let hdr: [u8; 12] = kani::any();
    let crc: u32 = kani::any();
    let time: u16 = kani::any();
    let date: u16 = kani::any();
    let dd: bool = kani::any();
    let mut src = EnvReader::<12> { data: hdr, total: 12, pos: 0, env: Env::quiet() };
    // compositional oracle: the crate's per-byte step (proven equal to APPNOTE for every key
    // state in c15_decrypt_step_matches_appnote) from the APPNOTE initial key constants
    let last = crate::zipcrypto::verif_h::last_header_byte_from_initial_keys(&hdr);
    let want = if dd { (time >> 8) as u8 } else { (crc >> 24) as u8 };
    let take = (&mut src as &mut dyn Read).take(12);
    let pw: [u8; 0] = [];
    match make_crypto_reader(
        CompressionMethod::Stored,
        crc,
        DateTime::from_msdos(date, time),
        dd,
        take,
        Some(&pw),
        None,
        #[cfg(feature = "aes-crypto")]
        12,
    ) {
        Ok(Ok(r)) => {
            assert_eq!(last, want, "entry accepted although the check byte does not match");
            kani::cover!(dd);
            kani::cover!(!dd && crc == 0);
            core::mem::forget(r);
        }
        Ok(Err(_)) => {
            assert!(last != want, "right check byte rejected");
            kani::cover!(true);
        }
        Err(e) => {
            core::mem::forget(e);
            assert!(false, "a complete encryption header was refused");
        }
    }
}

// =============================================================================================
// C10: releasing a streamed entry resynchronises the stream (drop-time drain)
// =============================================================================================
macro_rules! c10_drain {
    ($name:ident, $p:expr, $cons:expr, $short:expr) => {
        #[kani::proof]
        #[kani::unwind(8)]
        #[kani::stub(crc32fast::Hasher::internal_new_specialized, crate::verif_kit::stub_crc_specialized)]
        #[kani::stub(core::fmt::write, crate::verif_kit::stub_fmt_write)]
        fn $name() {
            const P: usize = $p;
            const CONS: usize = $cons;
            const N: usize = 16;
            let b: [u8; N] = kani::any();
            // the underlying stream delivers ONE byte per read call when $short (a reader that
            // splits its reads), everything at once otherwise
            let mut src = Src::<N>::with_env(b, N, if $short { Env::short(0) } else { Env::quiet() });
            src.pos = 2; // entry data occupies [2, 2 + P)
            let mut data = zfd_for_extra(Vec::new(), P as u32, P as u32, 0, 0);
            data.crc32 = kani::any();
            {
                // the entry as read_zipfile_from_stream hands it out: owned metadata, plaintext
                // reader limited to the compressed size
                let take = (&mut src as &mut dyn Read).take(P as u64);
                let mut f = ZipFile { data: Cow::Owned(data), crypto_reader: Some(CryptoReader::Plaintext(take)), reader: ZipFileReader::NoReader };
                let mut n = 0;
                while n < CONS {
                    let mut one = [0u8; 1];
                    match f.read(&mut one) {
                        Ok(m) => {
                            assert_eq!(m, 1);
                            assert_eq!(one[0], b[2 + n]);
                        }
                        Err(e) => {
                            core::mem::forget(e);
                            assert!(false, "read failed");
                        }
                    }
                    n += 1;
                }
                // `f` is released here: Drop drains what the consumer left unread
            }
            assert_eq!(src.pos, 2 + P, "stream not positioned at the next record after releasing the entry");
            kani::cover!(true);
        }
    };
}
/// C10 releasing a streamed entry (the ZipFile read_zipfile_from_stream hands out: owned
/// metadata, reader limited to the compressed size) after the consumer read NOTHING of its 3
/// bytes, over an underlying stream that returns one byte per read call: the drop-time drain
/// consumes exactly the rest, leaving the stream at the first byte after the entry's data.
// @h prop=C10 tier=quick t=1500 mem=14 name=c10_drain_p3_read0_short uws="fn:^std::ptr::drop_glue::<std::io::Error>$:2"
c10_drain!(c10_drain_p3_read0_short, 3, 0, true);
/// C10 as above after the consumer read 1 of 3 bytes (partial consumption), short reads.
// @h prop=C10 tier=quick t=1500 mem=14 name=c10_drain_p3_read1_short uws="fn:^std::ptr::drop_glue::<std::io::Error>$:2"
c10_drain!(c10_drain_p3_read1_short, 3, 1, true);
/// C10 as above, nothing read, the stream never splits its reads.
// @h prop=C10 tier=dev t=600 mem=8 name=c10_drain_p3_read0 uws="fn:^std::ptr::drop_glue::<std::io::Error>$:2"
c10_drain!(c10_drain_p3_read0, 3, 0, false);
