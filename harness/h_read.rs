// Harnesses for src/read.rs: extra-field parsing (C05, C08, C16), central header parsing
// (C03, C05, C19), archive opening and entry access (C03, C04, C05, C10, C15, C20).
#[allow(unused_imports)]
use crate::verif_kit::*;
#[allow(unused_imports)]
use std::io::{Read, Seek, SeekFrom, Write};

const THR32: u32 = 0xFFFF_FFFF;

fn zfd_for_extra(extra: Vec<u8>, usz: u32, csz: u32, off: u32, method: u16) -> ZipFileData {
    #[allow(deprecated)]
    ZipFileData {
        system: System::Unix,
        version_made_by: 20,
        encrypted: false,
        using_data_descriptor: false,
        compression_method: CompressionMethod::from_u16(method),
        compression_level: None,
        last_modified_time: DateTime::default(),
        crc32: 0,
        compressed_size: csz as u64,
        uncompressed_size: usz as u64,
        file_name: String::new(),
        file_name_raw: Vec::new(),
        extra_field: extra,
        file_comment: String::new(),
        header_start: off as u64,
        central_header_start: 0,
        data_start: AtomicU64::new(0),
        external_attributes: 0,
        large_file: false,
        aes_mode: None,
    }
}

macro_rules! c08_parse_zip64 {
    ($name:ident, $u:expr, $c:expr, $o:expr) => {
        #[kani::proof]
        #[kani::unwind(12)]
        fn $name() {
            const U: bool = $u;
            const C: bool = $c;
            const O: bool = $o;
            const K: usize = (U as usize) + (C as usize) + (O as usize);
            const XLEN: usize = 5 + 4 + 8 * K + 6;
            // layout: [unknown record id1, 1-byte body] [0x0001, 8K bytes] [unknown id2, 2-byte body]
            let id1: u16 = kani::any();
            let id2: u16 = kani::any();
            kani::assume(id1 != 0x0001 && id1 != 0x9901 && id2 != 0x0001 && id2 != 0x9901);
            let v: [u64; 3] = kani::any();
            let junk: [u8; 3] = kani::any();
            let mut x = [0u8; XLEN];
            put16(&mut x, 0, id1);
            put16(&mut x, 2, 1);
            x[4] = junk[0];
            put16(&mut x, 5, 0x0001);
            put16(&mut x, 7, (8 * K) as u16);
            let mut p = 9;
            if U {
                put64(&mut x, p, v[0]);
                p += 8;
            }
            if C {
                put64(&mut x, p, v[1]);
                p += 8;
            }
            if O {
                put64(&mut x, p, v[2]);
                p += 8;
            }
            put16(&mut x, p, id2);
            put16(&mut x, p + 2, 2);
            x[p + 4] = junk[1];
            x[p + 5] = junk[2];
            let usz: u32 = if U { THR32 } else { kani::any() };
            let csz: u32 = if C { THR32 } else { kani::any() };
            let off: u32 = if O { THR32 } else { kani::any() };
            kani::assume(U || usz != THR32);
            kani::assume(C || csz != THR32);
            kani::assume(O || off != THR32);
            let method: u16 = kani::any();
            let mut f = zfd_for_extra(x.to_vec(), usz, csz, off, method);
            let r = parse_extra_field(&mut f);
            assert!(r.is_ok());
            assert_eq!(f.uncompressed_size, if U { v[0] } else { usz as u64 });
            assert_eq!(f.compressed_size, if C { v[1] } else { csz as u64 });
            assert_eq!(f.header_start, if O { v[2] } else { off as u64 });
            assert_eq!(f.large_file, U || C);
            assert!(f.aes_mode.is_none());
            #[allow(deprecated)]
            let m = f.compression_method.to_u16();
            assert_eq!(m, method);
            kani::cover!(K == 0 || v[0] > 0xFFFF_FFFF || v[1] > 0xFFFF_FFFF || v[2] > 0xFFFF_FFFF);
            core::mem::forget(r);
            core::mem::forget(f);
        }
    };
}
/// C08/C03 reader: ZIP64 extended-information record from another producer, placed between two
/// unknown records (arbitrary IDs/bodies). Exactly the fields whose 32-bit value is the
/// sentinel are taken from the record, in APPNOTE order, for all 64-bit values; other fields,
/// the method and the AES state are untouched. Subset {} of (orig size, comp size, offset).
// @h prop=C08,C03 tier=quick t=600 mem=8 name=c08_parse_zip64_000
c08_parse_zip64!(c08_parse_zip64_000, false, false, false);
/// C08 reader ZIP64 record, subset {orig}.
// @h prop=C08,C03 tier=quick t=600 mem=8 name=c08_parse_zip64_100
c08_parse_zip64!(c08_parse_zip64_100, true, false, false);
/// C08 reader ZIP64 record, subset {comp}.
// @h prop=C08,C03 tier=quick t=600 mem=8 name=c08_parse_zip64_010
c08_parse_zip64!(c08_parse_zip64_010, false, true, false);
/// C08 reader ZIP64 record, subset {offset}.
// @h prop=C08,C03 tier=quick t=600 mem=8 name=c08_parse_zip64_001
c08_parse_zip64!(c08_parse_zip64_001, false, false, true);
/// C08 reader ZIP64 record, subset {orig, comp}.
// @h prop=C08,C03 tier=quick t=600 mem=8 name=c08_parse_zip64_110
c08_parse_zip64!(c08_parse_zip64_110, true, true, false);
/// C08 reader ZIP64 record, subset {orig, offset}.
// @h prop=C08,C03 tier=quick t=600 mem=8 name=c08_parse_zip64_101
c08_parse_zip64!(c08_parse_zip64_101, true, false, true);
/// C08 reader ZIP64 record, subset {comp, offset}.
// @h prop=C08,C03 tier=quick t=600 mem=8 name=c08_parse_zip64_011
c08_parse_zip64!(c08_parse_zip64_011, false, true, true);
/// C08 reader ZIP64 record, subset {orig, comp, offset}.
// @h prop=C08,C03 tier=quick t=600 mem=8 name=c08_parse_zip64_111
c08_parse_zip64!(c08_parse_zip64_111, true, true, true);

macro_rules! c05_parse_extra_any {
    ($name:ident, $n:expr) => {
        #[kani::proof]
        #[kani::unwind(12)]
        fn $name() {
            const N: usize = $n;
            let x: [u8; N] = kani::any();
            let usz: u32 = kani::any();
            let csz: u32 = kani::any();
            let off: u32 = kani::any();
            let mut f = zfd_for_extra(x.to_vec(), usz, csz, off, kani::any());
            let r = parse_extra_field(&mut f);
            // no panic, no overflow, terminates (unwinding assertion): that is the claim.
            kani::cover!(r.is_ok());
            kani::cover!(r.is_err());
            core::mem::forget(r);
            core::mem::forget(f);
        }
    };
}
/// C05 extra-field parser over EVERY byte string of length 4 with arbitrary size/offset
/// sentinels: terminates without panic/overflow.
// @h prop=C05 tier=quick t=600 mem=8 name=c05_parse_extra_any_4
c05_parse_extra_any!(c05_parse_extra_any_4, 4);
/// C05 extra-field parser over every byte string of length 11 (an AES record fits exactly).
// @h prop=C05,C16 tier=quick t=900 mem=10 name=c05_parse_extra_any_11
c05_parse_extra_any!(c05_parse_extra_any_11, 11);
/// C05 extra-field parser over every byte string of length 7.
// @h prop=C05 tier=thorough t=900 mem=10 name=c05_parse_extra_any_7
c05_parse_extra_any!(c05_parse_extra_any_7, 7);
/// C05 extra-field parser over every byte string of length 13.
// @h prop=C05 tier=thorough t=1800 mem=16 name=c05_parse_extra_any_13
c05_parse_extra_any!(c05_parse_extra_any_13, 13);

/// C16(a) AES extra field (0x9901): every 7-byte body maps to the documented
/// (strength, AE-version) pair and inner method, or to the documented error; a body length other
/// than 7 is refused.
// @h prop=C16 tier=quick t=600 mem=8
#[kani::proof]
#[kani::unwind(12)]
fn c16_parse_aes_extra() {
    let len: u16 = kani::any();
    let vv: u16 = kani::any();
    let vendor: u16 = kani::any();
    let strength: u8 = kani::any();
    let inner: u16 = kani::any();
    let mut x = [0u8; 11];
    put16(&mut x, 0, 0x9901);
    put16(&mut x, 2, len);
    put16(&mut x, 4, vv);
    put16(&mut x, 6, vendor);
    x[8] = strength;
    put16(&mut x, 9, inner);
    let mut f = zfd_for_extra(x.to_vec(), 1, 1, 0, 99);
    let r = parse_extra_field(&mut f);
    let good = len == 7 && vendor == 0x4541 && (vv == 1 || vv == 2) && (strength >= 1 && strength <= 3);
    match &r {
        Ok(()) => {
            assert!(good);
            match f.aes_mode {
                Some((mode, ver)) => {
                    assert!(match mode {
                        AesMode::Aes128 => strength == 1,
                        AesMode::Aes192 => strength == 2,
                        AesMode::Aes256 => strength == 3,
                    });
                    assert!(match ver {
                        AesVendorVersion::Ae1 => vv == 1,
                        AesVendorVersion::Ae2 => vv == 2,
                    });
                }
                None => assert!(false, "AES extra accepted but no mode recorded"),
            }
            #[allow(deprecated)]
            let m = f.compression_method.to_u16();
            assert_eq!(m, inner);
            kani::cover!(strength == 3 && vv == 2);
            kani::cover!(strength == 1 && vv == 1);
        }
        Err(e) => {
            assert!(!good);
            match e {
                ZipError::UnsupportedArchive(_) => assert!(len != 7),
                ZipError::InvalidArchive(_) => assert!(len == 7),
                _ => assert!(false, "unexpected error kind"),
            }
            assert!(f.aes_mode.is_none());
            kani::cover!(len == 7 && vendor != 0x4541);
            kani::cover!(len != 7);
        }
    }
    core::mem::forget(r);
    core::mem::forget(f);
}
