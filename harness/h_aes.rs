// Harnesses for src/aes.rs: WinZip AES reader control logic (C16 b, c; C09; C05 item 6).
// PBKDF2 is environment (stubbed: arbitrary derived key); AES itself is exercised in h_aes_ctr.rs;
// HMAC-SHA1 is the real `hmac`/`sha1` code (portable path), used both by the reader under test and,
// in one shot over the whole ciphertext, by the oracle.
#[allow(unused_imports)]
use crate::verif_kit::*;
use hmac::digest::{FixedOutput, KeyInit, Update};

/// The key-derivation function as environment: whatever bytes it returns, the reader must use
/// them as (cipher key | HMAC key | 2-byte password verifier).
static mut DERIVED: [u8; 66] = [0u8; 66];
static mut PBKDF2_SALT_LEN: usize = usize::MAX;
static mut PBKDF2_ROUNDS: u32 = 0;
static mut PBKDF2_OUT_LEN: usize = 0;
static mut PBKDF2_PW0: u8 = 0;
#[allow(dead_code)]
fn stub_pbkdf2<PRF>(password: &[u8], salt: &[u8], rounds: u32, res: &mut [u8])
where
    PRF: KeyInit + Update + FixedOutput + Clone + Sync,
{
    unsafe {
        PBKDF2_SALT_LEN = salt.len();
        PBKDF2_ROUNDS = rounds;
        PBKDF2_OUT_LEN = res.len();
        PBKDF2_PW0 = if password.is_empty() { 0 } else { password[0] };
        let mut i = 0;
        while i < res.len() && i < 66 {
            res[i] = DERIVED[i];
            i += 1;
        }
    }
}

/// A stand-in block function for the cipher behind `Box<dyn AesCipher>`: position-dependent XOR.
struct ToyCipher {
    pos: u64,
}
fn toy_ks(i: u64) -> u8 {
    (i as u8).wrapping_mul(37) ^ 0x5a
}
impl aes_ctr::AesCipher for ToyCipher {
    fn crypt_in_place(&mut self, target: &mut [u8]) {
        let mut i = 0;
        while i < target.len() {
            target[i] ^= toy_ks(self.pos);
            self.pos += 1;
            i += 1;
        }
    }
}

const HKEY: [u8; 16] = [0x0b, 0x1c, 0x2d, 0x3e, 0x4f, 0x50, 0x61, 0x72, 0x83, 0x94, 0xa5, 0xb6, 0xc7, 0xd8, 0xe9, 0xfa];

macro_rules! c16_read {
    ($name:ident, $n:expr, $calls:expr, $unwind:expr) => {
        #[kani::proof]
        #[kani::unwind($unwind)]
        #[kani::stub(core::arch::x86_64::__cpuid, crate::verif_kit::stub_cpuid)]
        #[kani::stub(core::arch::x86_64::__cpuid_count, crate::verif_kit::stub_cpuid_count)]
        fn $name() {
            const N: usize = $n;
            let data: [u8; 16] = kani::any(); // N ciphertext bytes followed by the 10-byte code
            let sched: u64 = kani::any();
            let inner = EnvReader::<16> { data, total: N + 10, pos: 0, env: Env::short(sched) };
            let hm = <Hmac<Sha1> as Mac>::new_from_slice(&HKEY).unwrap();
            // oracle: the authentication code of exactly the ciphertext bytes, in order, one shot
            let mut ref_h = hm.clone();
            Mac::update(&mut ref_h, &data[..N]);
            let want = ref_h.finalize().into_bytes();
            let mut tag_ok = true;
            let mut i = 0;
            while i < 10 {
                if data[N + i] != want[i] {
                    tag_ok = false;
                }
                i += 1;
            }
            let mut rd = AesReaderValid {
                reader: inner,
                data_remaining: N as u64,
                cipher: Box::new(ToyCipher { pos: 0 }),
                hmac: hm,
                finalized: false,
            };
            let mut got = [0u8; 4];
            let mut n = 0usize;
            let mut eof_ok = false;
            let mut errored = false;
            let mut call = 0;
            while call < $calls {
                let l: usize = kani::any();
                kani::assume(l <= 2);
                let mut buf = [0u8; 2];
                match rd.read(&mut buf[..l]) {
                    Ok(m) => {
                        assert!(m <= l);
                        assert!(!errored || m == 0);
                        if m == 0 && l > 0 {
                            assert_eq!(n, N);
                            eof_ok = true;
                        }
                        let mut j = 0;
                        while j < m {
                            assert!(n < N && !eof_ok);
                            got[n] = buf[j];
                            n += 1;
                            j += 1;
                        }
                    }
                    Err(e) => {
                        core::mem::forget(e);
                        // the only failure of a healthy source is the authentication code, and it is
                        // raised by the very read that consumed the last ciphertext byte
                        assert!(!tag_ok, "read failed although the authentication code is right");
                        assert!(!errored);
                        assert_eq!(rd.data_remaining, 0);
                        errored = true;
                    }
                }
                call += 1;
            }
            // plaintext = ciphertext XOR key stream, position carried across calls
            let mut i = 0;
            while i < n {
                assert_eq!(got[i], data[i] ^ toy_ks(i as u64));
                i += 1;
            }
            if eof_ok && !errored {
                // THE property: a completed read implies the stored code authenticates the data
                assert!(tag_ok, "entry read to EOF although its authentication code is wrong");
                assert_eq!(rd.reader.pos, N + 10);
            }
            if n == N {
                assert!(tag_ok, "all data delivered although the authentication code is wrong");
            }
            kani::cover!(eof_ok && !errored);
            kani::cover!(errored);
            core::mem::forget(rd);
        }
    };
}
/// C16(c)/C09 AesReaderValid::read over a pure-environment source (N ciphertext bytes + 10-byte
/// code, arbitrary short reads) with arbitrary caller buffer sizes 0..=2: bytes delivered are
/// ciphertext XOR key stream (position carried across calls; toy block function behind the
/// `dyn AesCipher`), a failure happens only on the read that consumes the last ciphertext byte
/// and only when the stored 10 bytes differ from HMAC-SHA1(ciphertext)[..10] (real hmac/sha1
/// code, one-shot oracle); all N bytes are delivered / EOF is reported only when the code
/// matches; after EOF reads return 0. Variant N=1, 3 caller reads.
// @h prop=C16,C09 tier=dev feat=aes t=1200 mem=12 name=c16_read_mac_n1
c16_read!(c16_read_mac_n1, 1, 3, 82);
/// C16(c)/C09 as above, N=3 ciphertext bytes, 5 caller reads.
// @h prop=C16,C09 tier=dev feat=aes t=2400 mem=16 name=c16_read_mac_n3
c16_read!(c16_read_mac_n3, 3, 5, 82);

macro_rules! c16_validate {
    ($name:ident, $mode:expr, $klen:expr) => {
        #[kani::proof]
        #[kani::unwind(82)]
        #[kani::stub(pbkdf2::pbkdf2, stub_pbkdf2)]
        #[kani::stub(core::arch::x86_64::__cpuid, crate::verif_kit::stub_cpuid)]
        #[kani::stub(core::arch::x86_64::__cpuid_count, crate::verif_kit::stub_cpuid_count)]
        fn $name() {
            const K: usize = $klen;
            const S: usize = K / 2;
            // derived key: concrete, pairwise distinct key material (so a wrong slice is visible),
            // symbolic 2-byte verifier
            let v: [u8; 2] = kani::any();
            unsafe {
                let mut i = 0;
                while i < 2 * K {
                    DERIVED[i] = (i as u8).wrapping_mul(7).wrapping_add(3);
                    i += 1;
                }
                DERIVED[2 * K] = v[0];
                DERIVED[2 * K + 1] = v[1];
            }
            let file: [u8; 20] = kani::any(); // salt | verifier | ...
            let csize: u64 = kani::any();
            kani::assume(csize >= (S + 12) as u64);
            let src = EnvReader::<20> { data: file, total: 20, pos: 0, env: Env::quiet() };
            let pw: [u8; 1] = kani::any();
            let r = AesReader::new(src, $mode, csize).validate(&pw);
            let matches = file[S] == v[0] && file[S + 1] == v[1];
            match r {
                Ok(Some(valid)) => {
                    assert!(matches, "wrong password verifier accepted");
                    unsafe {
                        assert_eq!(PBKDF2_SALT_LEN, S);
                        assert_eq!(PBKDF2_ROUNDS, 1000);
                        assert_eq!(PBKDF2_OUT_LEN, 2 * K + 2);
                        assert_eq!(PBKDF2_PW0, pw[0]);
                    }
                    assert_eq!(valid.reader.pos, S + 2);
                    assert_eq!(valid.data_remaining, csize - (S + 12) as u64);
                    assert!(!valid.finalized);
                    // HMAC keyed with the second K derived bytes: same state as a MAC built from them
                    let mut hk = [0u8; K];
                    let mut i = 0;
                    while i < K {
                        hk[i] = ((K + i) as u8).wrapping_mul(7).wrapping_add(3);
                        i += 1;
                    }
                    let a = valid.hmac.clone().finalize().into_bytes();
                    let b = <Hmac<Sha1> as Mac>::new_from_slice(&hk).unwrap().finalize().into_bytes();
                    let mut i = 0;
                    while i < 20 {
                        assert_eq!(a[i], b[i]);
                        i += 1;
                    }
                    kani::cover!(true);
                    core::mem::forget(valid);
                }
                Ok(None) => {
                    assert!(!matches, "right password verifier rejected");
                    kani::cover!(true);
                }
                Err(e) => {
                    core::mem::forget(e);
                    assert!(false, "validate failed on a complete header");
                }
            }
        }
    };
}
macro_rules! c16_verifier {
    ($name:ident, $mode:expr, $klen:expr) => {
        #[kani::proof]
        #[kani::unwind(82)]
        #[kani::stub(pbkdf2::pbkdf2, stub_pbkdf2)]
        #[kani::stub(core::arch::x86_64::__cpuid, crate::verif_kit::stub_cpuid)]
        #[kani::stub(core::arch::x86_64::__cpuid_count, crate::verif_kit::stub_cpuid_count)]
        fn $name() {
            const K: usize = $klen;
            const S: usize = K / 2;
            // derived key: concrete, pairwise distinct key material (so a wrong slice is visible),
            // symbolic 2-byte verifier
            let v: [u8; 2] = kani::any();
            unsafe {
                let mut i = 0;
                while i < 2 * K {
                    DERIVED[i] = (i as u8).wrapping_mul(7).wrapping_add(3);
                    i += 1;
                }
                DERIVED[2 * K] = v[0];
                DERIVED[2 * K + 1] = v[1];
            }
            let file: [u8; 20] = kani::any(); // salt | verifier | ...
            let csize: u64 = kani::any();
            kani::assume(csize >= (S + 12) as u64);
            let src = EnvReader::<20> { data: file, total: 20, pos: 0, env: Env::quiet() };
            let pw: [u8; 1] = kani::any();
            let r = AesReader::new(src, $mode, csize).validate(&pw);
            let matches = file[S] == v[0] && file[S + 1] == v[1];
            match r {
                Ok(Some(valid)) => {
                    assert!(matches, "wrong password verifier accepted");
                    unsafe {
                        assert_eq!(PBKDF2_SALT_LEN, S);
                        assert_eq!(PBKDF2_ROUNDS, 1000);
                        assert_eq!(PBKDF2_OUT_LEN, 2 * K + 2);
                        assert_eq!(PBKDF2_PW0, pw[0]);
                    }
                    assert_eq!(valid.reader.pos, S + 2);
                    assert_eq!(valid.data_remaining, csize - (S + 12) as u64);
                    assert!(!valid.finalized);
                    kani::cover!(true);
                    core::mem::forget(valid);
                }
                Ok(None) => {
                    assert!(!matches, "right password verifier rejected");
                    kani::cover!(true);
                }
                Err(e) => {
                    core::mem::forget(e);
                    assert!(false, "validate failed on a complete header");
                }
            }
        }
    };
}
/// C16(b) password verifier, AES-128, key derivation as environment (PBKDF2 stubbed: called with
/// the 8-byte salt read from the entry, 1000 rounds, 2*16+2 output bytes and the caller's
/// password; derived key material concrete, the two verifier bytes symbolic): accepted iff BOTH
/// stored verifier bytes equal the last two derived bytes; then exactly salt+2 bytes were
/// consumed and the ciphertext length is compressed_size - (salt + 2 + 10) for every size.
// @h prop=C16 tier=quick feat=aes t=600 mem=4 name=c16_verifier_aes128
c16_verifier!(c16_verifier_aes128, AesMode::Aes128, 16);

/// C16(b) AesReader::validate, AES-128, key derivation as environment (PBKDF2 stubbed: it is
/// called with the 8-byte salt read from the entry, 1000 rounds, 2*16+2 output bytes and the
/// caller's password): accepted iff the two stored verifier bytes equal the last two derived
/// bytes (both symbolic); then exactly salt+2 bytes were consumed, the ciphertext length is
/// compressed_size - (salt + 2 + 10) for every compressed_size, and the MAC is keyed with
/// derived[16..32].
// @h prop=C16 tier=dev feat=aes t=1200 mem=12 name=c16_validate_aes128
c16_validate!(c16_validate_aes128, AesMode::Aes128, 16);
/// C16(b) as above for AES-256 (16-byte salt, 66 derived bytes, MAC key derived[32..64]).
// @h prop=C16 tier=dev feat=aes t=2400 mem=16 name=c16_validate_aes256
c16_validate!(c16_validate_aes256, AesMode::Aes256, 32);

/// C05(6)/C16 AesReader::new on an entry shorter than salt + verifier + code (hostile
/// compressed_size): no arithmetic overflow panic; with a too-small size validation must fail or
/// the reader must deliver no data.
// @h prop=C05,C16 tier=quick feat=aes t=300 mem=4
#[kani::proof]
#[kani::unwind(36)]
#[kani::stub(pbkdf2::pbkdf2, stub_pbkdf2)]
#[kani::stub(core::arch::x86_64::__cpuid, crate::verif_kit::stub_cpuid)]
#[kani::stub(core::arch::x86_64::__cpuid_count, crate::verif_kit::stub_cpuid_count)]
fn c05_aes_reader_new_any_size() {
    let csize: u64 = kani::any();
    let k: u8 = kani::any();
    kani::assume(k < 3);
    let mode = match k {
        0 => AesMode::Aes128,
        1 => AesMode::Aes192,
        _ => AesMode::Aes256,
    };
    let file: [u8; 20] = kani::any();
    let src = EnvReader::<20> { data: file, total: 20, pos: 0, env: Env::quiet() };
    let rd = AesReader::new(src, mode, csize);
    kani::cover!(csize < 10);
    kani::cover!(csize > 1000);
    core::mem::forget(rd);
}

/// C05(6)/C16 an AES entry too short for salt + verifier + authentication code is refused by
/// validate() with an error (never a reader that would deliver data). Split so that symbolic
/// execution stays small: (1) for EVERY compressed_size and strength, new() records "too short"
/// exactly when compressed_size < salt + 12 and otherwise the exact ciphertext length; (2) for
/// the concrete sizes 0, 1 and salt + 11 of each strength, validate() returns Err.
// @h prop=C05,C16 tier=quick feat=aes t=300 mem=4
#[kani::proof]
#[kani::unwind(36)]
#[kani::stub(pbkdf2::pbkdf2, stub_pbkdf2)]
#[kani::stub(core::arch::x86_64::__cpuid, crate::verif_kit::stub_cpuid)]
#[kani::stub(core::arch::x86_64::__cpuid_count, crate::verif_kit::stub_cpuid_count)]
fn c05_aes_too_short_entry_refused() {
    let csize: u64 = kani::any();
    let k: u8 = kani::any();
    kani::assume(k < 3);
    let (mode, salt) = match k {
        0 => (AesMode::Aes128, 8u64),
        1 => (AesMode::Aes192, 12u64),
        _ => (AesMode::Aes256, 16u64),
    };
    let file: [u8; 20] = kani::any();
    let src = EnvReader::<20> { data: file, total: 20, pos: 0, env: Env::quiet() };
    let rd = AesReader::new(src, mode, csize);
    match rd.data_length {
        None => assert!(csize < salt + 12),
        Some(n) => {
            assert!(csize >= salt + 12);
            assert_eq!(n, csize - salt - 12);
        }
    }
    kani::cover!(rd.data_length.is_none());
    kani::cover!(rd.data_length == Some(0));
    core::mem::forget(rd);
    // (2) concrete too-short sizes: validate() refuses before deriving any key
    let pw: [u8; 1] = kani::any();
    macro_rules! refused {
        ($mode:expr, $size:expr) => {{
            let src = EnvReader::<20> { data: file, total: 20, pos: 0, env: Env::quiet() };
            match AesReader::new(src, $mode, $size).validate(&pw) {
                Ok(v) => {
                    core::mem::forget(v);
                    assert!(false, "an AES entry shorter than its own framing was accepted");
                }
                Err(e) => core::mem::forget(e),
            }
        }};
    }
    refused!(AesMode::Aes128, 0);
    refused!(AesMode::Aes128, 1);
    refused!(AesMode::Aes128, 19);
    refused!(AesMode::Aes192, 23);
    refused!(AesMode::Aes256, 0);
    refused!(AesMode::Aes256, 27);
}
