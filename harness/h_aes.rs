// harness
