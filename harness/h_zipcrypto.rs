// Harnesses for src/zipcrypto.rs: C15 (PKWARE traditional encryption) and C09 (chunking).
#[allow(unused_imports)]
use crate::verif_kit::*;
use std::io::Read;
use std::io::Write;

fn any_keys() -> (ZipCryptoKeys, RefPk) {
    let k0: u32 = kani::any();
    let k1: u32 = kani::any();
    let k2: u32 = kani::any();
    (
        ZipCryptoKeys { key_0: Wrapping(k0), key_1: Wrapping(k1), key_2: Wrapping(k2) },
        RefPk { k0, k1, k2 },
    )
}
/// the key state before any password byte (APPNOTE 6.1.5 constants, typed from the specification)
pub(crate) fn initial_keys() -> ZipCryptoKeys {
    ZipCryptoKeys { key_0: Wrapping(0x1234_5678), key_1: Wrapping(0x2345_6789), key_2: Wrapping(0x3456_7890) }
}
/// decrypted 12th byte of an encryption header under the empty password (crate's own per-byte
/// step, which c15_decrypt_step_matches_appnote proves equal to APPNOTE for every key state)
pub(crate) fn last_header_byte_from_initial_keys(hdr: &[u8; 12]) -> u8 {
    let mut o = initial_keys();
    let mut last = 0u8;
    let mut i = 0;
    while i < 12 {
        last = o.decrypt_byte(hdr[i]);
        i += 1;
    }
    last
}
fn same(k: &ZipCryptoKeys, r: &RefPk) -> bool {
    k.key_0.0 == r.k0 && k.key_1.0 == r.k1 && k.key_2.0 == r.k2
}

/// C15(a) one inductive step, all 2^96 key states x 2^8 bytes: decrypt_byte equals the APPNOTE
/// 6.1 cipher written with a bitwise CRC (so the crate's 256-entry table is checked too) and
/// leaves the same key state.
// @h prop=C15 tier=quick t=300 mem=4
#[kani::proof]
fn c15_decrypt_step_matches_appnote() {
    let (mut k, mut r) = any_keys();
    let c: u8 = kani::any();
    let p = k.decrypt_byte(c);
    let pr = r.dec(c);
    assert_eq!(p, pr);
    assert!(same(&k, &r));
    kani::cover!(p != c);
}

/// C15(a) encrypt_byte equals the APPNOTE cipher step; decrypt(encrypt(p)) == p from equal
/// states and both leave equal states (by induction: every length, every password).
// @h prop=C15 tier=quick t=300 mem=4
#[kani::proof]
fn c15_encrypt_step_matches_and_inverts() {
    let (mut k, mut r) = any_keys();
    let mut k2 = k;
    let p: u8 = kani::any();
    let c = k.encrypt_byte(p);
    let cr = r.enc(p);
    assert_eq!(c, cr);
    assert!(same(&k, &r));
    let back = k2.decrypt_byte(c);
    assert_eq!(back, p);
    assert!(same(&k2, &r));
    kani::cover!(c != p);
}

/// C15(b) key derivation from a password of length 0..=3 equals the APPNOTE initialisation.
// @h prop=C15 tier=quick t=300 mem=4
#[kani::proof]
#[kani::unwind(5)]
fn c15_derive_matches_appnote() {
    let pw: [u8; 3] = kani::any();
    let n: usize = kani::any();
    kani::assume(n <= 3);
    let k = ZipCryptoKeys::derive(&pw[..n]);
    let mut r = RefPk::init();
    let mut i = 0;
    while i < n {
        r.update(pw[i]);
        i += 1;
    }
    assert!(same(&k, &r));
    kani::cover!(n == 0);
    kani::cover!(n == 3);
}

/// C15(c) password validation (compositional: the per-byte step is proven equal to APPNOTE in
/// the two step harnesses; here the oracle is 12 applications of that step): for an arbitrary
/// key state and arbitrary 12 header bytes, the reader is accepted iff the decrypted 12th byte
/// equals the CRC high byte (PKZIP) resp. the DOS-time high byte (Info-ZIP variant), and an
/// accepted reader continues from the key state after the header, positioned after 12 bytes.
// @h prop=C15 tier=quick t=1140 mem=4
#[kani::proof]
#[kani::unwind(14)]
fn c15_validate_check_byte() {
    let (k, _r) = any_keys();
    let mut o = k;
    let hdr: [u8; 12] = kani::any();
    let infozip: bool = kani::any();
    let crc: u32 = kani::any();
    let time: u16 = kani::any();
    let src = EnvReader::<12> { data: hdr, total: 12, pos: 0, env: Env::quiet() };
    let rd = ZipCryptoReader { file: src, keys: k };
    let v = if infozip { ZipCryptoValidator::InfoZipMsdosTime(time) } else { ZipCryptoValidator::PkzipCrc32(crc) };
    let mut last = 0u8;
    let mut i = 0;
    while i < 12 {
        last = o.decrypt_byte(hdr[i]);
        i += 1;
    }
    let want = if infozip { (time >> 8) as u8 } else { (crc >> 24) as u8 };
    match rd.validate(v) {
        Ok(Some(valid)) => {
            assert_eq!(last, want);
            assert!(valid.reader.keys.key_0 == o.key_0 && valid.reader.keys.key_1 == o.key_1 && valid.reader.keys.key_2 == o.key_2);
            assert_eq!(valid.reader.file.pos, 12);
            kani::cover!(infozip);
            kani::cover!(!infozip);
            core::mem::forget(valid);
        }
        Ok(None) => {
            assert!(last != want);
            kani::cover!(true);
        }
        Err(e) => {
            core::mem::forget(e);
            assert!(false, "validate failed on a complete header");
        }
    }
}

/// C15 truncated crypto header (fewer than 12 bytes available) is an error, not a panic.
// @h prop=C15,C05 tier=quick t=300 mem=4
#[kani::proof]
#[kani::unwind(14)]
fn c15_validate_short_header_errors() {
    let (k, _r) = any_keys();
    let hdr: [u8; 12] = kani::any();
    let n: usize = kani::any();
    kani::assume(n < 12);
    let src = EnvReader::<12> { data: hdr, total: n, pos: 0, env: Env::quiet() };
    let rd = ZipCryptoReader { file: src, keys: k };
    let res = rd.validate(ZipCryptoValidator::PkzipCrc32(kani::any()));
    assert!(res.is_err());
    kani::cover!(n == 0);
    kani::cover!(n == 11);
    core::mem::forget(res);
}

macro_rules! c09_zipcrypto_chunking {
    ($name:ident, $n:expr, $calls:expr, $unwind:expr) => {
        #[kani::proof]
        #[kani::unwind($unwind)]
        fn $name() {
            const N: usize = $n;
            const CALLS: usize = $calls;
            let (k, _r) = any_keys();
            let mut o = k;
            let ct: [u8; N] = kani::any();
            let sched: u64 = kani::any();
            let src = EnvReader::<N> { data: ct, total: N, pos: 0, env: Env::short(sched) };
            let mut valid = ZipCryptoReaderValid { reader: ZipCryptoReader { file: src, keys: k } };
            let mut want = [0u8; N];
            let mut i = 0;
            while i < N {
                want[i] = o.decrypt_byte(ct[i]);
                i += 1;
            }
            let mut got = [0u8; N];
            let mut n = 0usize;
            let mut call = 0;
            let mut saw_short = false;
            while call < CALLS {
                let want_len: usize = kani::any();
                kani::assume(want_len <= N);
                let mut buf = [0u8; N];
                match valid.read(&mut buf[..want_len]) {
                    Ok(m) => {
                        assert!(m <= want_len);
                        if m < want_len && n + m < N {
                            saw_short = true;
                        }
                        let mut j = 0;
                        while j < m {
                            assert!(n < N);
                            got[n] = buf[j];
                            n += 1;
                            j += 1;
                        }
                    }
                    Err(e) => {
                        core::mem::forget(e);
                        assert!(false, "read error from a healthy source");
                    }
                }
                call += 1;
            }
            let mut i = 0;
            while i < N {
                assert!(n <= i || got[i] == want[i], "decrypted bytes depend on how the reads were split");
                i += 1;
            }
            kani::cover!(n == N && saw_short);
            kani::cover!(n == N && !saw_short);
            core::mem::forget(valid);
        }
    };
}
/// C09/C15 decryption is independent of how the underlying reader splits its reads
/// (compositional oracle = the proven per-byte step applied to the ciphertext in order): for an
/// arbitrary key state, 2 ciphertext bytes, an arbitrary short-read schedule of the underlying
/// reader and arbitrary caller buffer sizes (0..=2 per call, 3 calls), the concatenation of
/// the bytes returned equals the one-shot decryption.
// @h prop=C09,C15 tier=quick t=1500 mem=4 name=c09_zipcrypto_read_chunking
c09_zipcrypto_chunking!(c09_zipcrypto_read_chunking, 2, 3, 4);
/// C09/C15 as above with 3 ciphertext bytes and 4 caller reads of 0..=3 bytes.
// @h prop=C09,C15 tier=dev t=600 mem=8 name=c09_zipcrypto_read_chunking_n3
c09_zipcrypto_chunking!(c09_zipcrypto_read_chunking_n3, 3, 4, 5);

macro_rules! c15_writer {
    ($name:ident, $n:expr, $split:expr) => {
        #[kani::proof]
        #[kani::unwind(17)]
        fn $name() {
            const N: usize = $n;
            const SPLIT: usize = $split;
            let (k, _r) = any_keys();
            let mut o = k;
            let hdr: [u8; 12] = kani::any();
            let content: [u8; 3] = kani::any();
            let crc: u32 = kani::any();
            let mut w = ZipCryptoWriter { writer: Sink::<16>::new(), buffer: vec![], keys: k };
            w.write_all(&hdr).unwrap();
            w.write_all(&content[..SPLIT]).unwrap();
            w.write_all(&content[SPLIT..N]).unwrap();
            let sink = match w.finish(crc) {
                Ok(s) => s,
                Err(e) => {
                    core::mem::forget(e);
                    assert!(false, "finish failed on a healthy sink");
                    return;
                }
            };
            assert_eq!(sink.end, 12 + N);
            assert!(!sink.overflow);
            let mut i = 0;
            while i < 12 + N {
                let plain = if i < 11 {
                    hdr[i]
                } else if i == 11 {
                    (crc >> 24) as u8
                } else {
                    content[i - 12]
                };
                let c = o.encrypt_byte(plain);
                assert_eq!(sink.buf[i], c);
                i += 1;
            }
            kani::cover!(sink.buf[11] != (crc >> 24) as u8);
        }
    };
}
/// C15(d) the buffering writer (compositional oracle = proven encrypt step): what reaches the
/// sink on finish(crc) is exactly the encryption, in order, of the 12-byte header whose last
/// byte is replaced by the CRC high byte, followed by the content; arbitrary key state, header
/// bytes, content bytes and CRC. Variant: empty content.
// @h prop=C15 tier=quick t=840 mem=4 name=c15_writer_ciphertext_n0
c15_writer!(c15_writer_ciphertext_n0, 0, 0);
/// C15(d) as above with 3 content bytes written in two calls (1 + 2).
// @h prop=C15 tier=quick t=780 mem=4 name=c15_writer_ciphertext_n3
c15_writer!(c15_writer_ciphertext_n3, 3, 1);
