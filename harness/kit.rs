// Shared harness kit: environment models (sinks/sources with short I/O and faults), stubs and
// independent reference models (oracles). Compiled only under `cargo kani` (cfg(kani)) as
// `crate::verif_kit`. Nothing here is used by the crate itself.
#[allow(dead_code, unused_imports, unused_variables, clippy::all)]
pub(crate) mod k {
    use std::io::{self, Read, Seek, SeekFrom, Write};

    // ------------------------------------------------------------------------------------
    // Environment: fault/short-I/O control shared by Sink and Src
    // ------------------------------------------------------------------------------------
    #[derive(Clone, Copy)]
    pub struct Env {
        /// number of I/O calls made so far (read, write, flush, seek)
        pub calls: u32,
        /// the call with this index fails (u32::MAX: never)
        pub fault_at: u32,
        /// which kinds may fail: bit0 read, bit1 write, bit2 flush, bit3 seek
        pub fault_kinds: u8,
        /// short I/O schedule: 2 bits per call, accepted/returned length is limited to
        /// 1 + (bits & 3) when `short` is true
        pub sched: u64,
        pub short: bool,
        /// set once a fault was delivered
        pub faulted: bool,
    }
    pub const K_READ: u8 = 1;
    pub const K_WRITE: u8 = 2;
    pub const K_FLUSH: u8 = 4;
    pub const K_SEEK: u8 = 8;
    impl Env {
        pub const fn quiet() -> Env {
            Env { calls: 0, fault_at: u32::MAX, fault_kinds: 0, sched: 0, short: false, faulted: false }
        }
        pub fn short(sched: u64) -> Env {
            Env { calls: 0, fault_at: u32::MAX, fault_kinds: 0, sched, short: true, faulted: false }
        }
        pub fn faulty(fault_at: u32, kinds: u8) -> Env {
            Env { calls: 0, fault_at, fault_kinds: kinds, sched: 0, short: false, faulted: false }
        }
        #[inline]
        fn step(&mut self, kind: u8) -> io::Result<usize> {
            let idx = self.calls;
            self.calls = self.calls.wrapping_add(1);
            if idx == self.fault_at && (self.fault_kinds & kind) != 0 {
                self.faulted = true;
                return Err(io::Error::from(io::ErrorKind::Other));
            }
            let lim = if self.short {
                let l = 1 + (self.sched & 3) as usize;
                self.sched >>= 2;
                l
            } else {
                usize::MAX
            };
            Ok(lim)
        }
    }

    // ------------------------------------------------------------------------------------
    // Sink: Write + Seek (+ Read) over a fixed array. `base` is a (possibly symbolic) logical
    // offset of buf[0]: the archive is imagined to start `base` bytes into a larger file.
    // ------------------------------------------------------------------------------------
    pub struct Sink<const CAP: usize> {
        pub buf: [u8; CAP],
        pub off: usize,
        pub end: usize,
        pub base: u64,
        pub env: Env,
        /// a write went past CAP (bytes dropped) - harnesses assert this stays false
        pub overflow: bool,
    }
    impl<const CAP: usize> Sink<CAP> {
        pub fn new() -> Self {
            Sink { buf: [0u8; CAP], off: 0, end: 0, base: 0, env: Env::quiet(), overflow: false }
        }
        pub fn with_env(env: Env) -> Self {
            Sink { buf: [0u8; CAP], off: 0, end: 0, base: 0, env, overflow: false }
        }
        pub fn with_base(base: u64) -> Self {
            Sink { buf: [0u8; CAP], off: 0, end: 0, base, env: Env::quiet(), overflow: false }
        }
        /// takes the whole array (no copy loop); `end` is the logical length
        pub fn from_array(buf: [u8; CAP], end: usize) -> Self {
            Sink { buf, off: 0, end, base: 0, env: Env::quiet(), overflow: false }
        }
        pub fn from_bytes(src: &[u8]) -> Self {
            let mut s = Self::new();
            let mut i = 0;
            while i < src.len() && i < CAP {
                s.buf[i] = src[i];
                i += 1;
            }
            s.end = src.len();
            s
        }
    }
    impl<const CAP: usize> Write for Sink<CAP> {
        fn write(&mut self, data: &[u8]) -> io::Result<usize> {
            let lim = self.env.step(K_WRITE)?;
            let n = if data.len() < lim { data.len() } else { lim };
            let mut i = 0;
            while i < n {
                let idx = self.off + i;
                if idx < CAP {
                    self.buf[idx] = data[i];
                } else {
                    self.overflow = true;
                }
                i += 1;
            }
            self.off += n;
            if self.off > self.end {
                self.end = self.off;
            }
            Ok(n)
        }
        fn flush(&mut self) -> io::Result<()> {
            self.env.step(K_FLUSH)?;
            Ok(())
        }
        // Without short writes the sink accepts a whole buffer in one call; overriding the
        // provided method keeps symbolic-length writes to ONE copy loop (the default
        // write_all loop around write() squares the unwinding cost). With short writes the
        // standard retry loop semantics are reproduced call by call.
        fn write_all(&mut self, mut data: &[u8]) -> io::Result<()> {
            if !self.env.short {
                if data.is_empty() {
                    return Ok(());
                }
                self.env.step(K_WRITE)?;
                let n = data.len();
                let mut i = 0;
                while i < n {
                    let idx = self.off + i;
                    if idx < CAP {
                        self.buf[idx] = data[i];
                    } else {
                        self.overflow = true;
                    }
                    i += 1;
                }
                self.off += n;
                if self.off > self.end {
                    self.end = self.off;
                }
                return Ok(());
            }
            while !data.is_empty() {
                match self.write(data) {
                    Ok(0) => return Err(io::Error::from(io::ErrorKind::WriteZero)),
                    Ok(n) => data = &data[n..],
                    Err(e) => return Err(e),
                }
            }
            Ok(())
        }
    }
    impl<const CAP: usize> Read for Sink<CAP> {
        fn read(&mut self, out: &mut [u8]) -> io::Result<usize> {
            let lim = self.env.step(K_READ)?;
            let avail = if self.off < self.end { self.end - self.off } else { 0 };
            let mut n = if out.len() < avail { out.len() } else { avail };
            if n > lim {
                n = lim;
            }
            let mut i = 0;
            while i < n {
                let idx = self.off + i;
                out[i] = if idx < CAP { self.buf[idx] } else { 0 };
                i += 1;
            }
            self.off += n;
            Ok(n)
        }
        fn read_exact(&mut self, out: &mut [u8]) -> io::Result<()> {
            if !self.env.short {
                if out.is_empty() {
                    return Ok(());
                }
                self.env.step(K_READ)?;
                let avail = if self.off < self.end { self.end - self.off } else { 0 };
                let want = out.len();
                let n = if want < avail { want } else { avail };
                let mut i = 0;
                while i < n {
                    let idx = self.off + i;
                    out[i] = if idx < CAP { self.buf[idx] } else { 0 };
                    i += 1;
                }
                self.off += n;
                if n < want {
                    return Err(io::Error::from(io::ErrorKind::UnexpectedEof));
                }
                return Ok(());
            }
            let mut done = 0;
            while done < out.len() {
                match self.read(&mut out[done..]) {
                    Ok(0) => return Err(io::Error::from(io::ErrorKind::UnexpectedEof)),
                    Ok(n) => done += n,
                    Err(e) => return Err(e),
                }
            }
            Ok(())
        }
    }
    impl<const CAP: usize> Seek for Sink<CAP> {
        fn seek(&mut self, to: SeekFrom) -> io::Result<u64> {
            self.env.step(K_SEEK)?;
            let np: i128 = match to {
                SeekFrom::Start(n) => n as i128 - self.base as i128,
                SeekFrom::End(d) => self.end as i128 + d as i128,
                SeekFrom::Current(d) => self.off as i128 + d as i128,
            };
            if np < 0 || np > (u32::MAX as i128) {
                return Err(io::Error::from(io::ErrorKind::InvalidInput));
            }
            self.off = np as usize;
            Ok(self.base + self.off as u64)
        }
    }

    /// Handle to a `Sink` that lives in the harness frame. `ZipWriter` keeps its sink inside a
    /// nested enum; embedding a byte array there defeats CBMC's field sensitivity (every byte
    /// written rewrites the whole enum object). The handle keeps only a pointer inside the
    /// writer, all mutable sink state stays in a plain struct outside.
    pub struct SinkH<const CAP: usize> {
        pub p: *mut Sink<CAP>,
    }
    impl<const CAP: usize> Sink<CAP> {
        pub fn handle(&mut self) -> SinkH<CAP> {
            SinkH { p: self as *mut Sink<CAP> }
        }
    }
    impl<const CAP: usize> Write for SinkH<CAP> {
        fn write(&mut self, data: &[u8]) -> io::Result<usize> {
            unsafe { (*self.p).write(data) }
        }
        fn flush(&mut self) -> io::Result<()> {
            unsafe { (*self.p).flush() }
        }
        fn write_all(&mut self, data: &[u8]) -> io::Result<()> {
            unsafe { (*self.p).write_all(data) }
        }
    }
    impl<const CAP: usize> Read for SinkH<CAP> {
        fn read(&mut self, out: &mut [u8]) -> io::Result<usize> {
            unsafe { (*self.p).read(out) }
        }
        fn read_exact(&mut self, out: &mut [u8]) -> io::Result<()> {
            unsafe { (*self.p).read_exact(out) }
        }
    }
    impl<const CAP: usize> Seek for SinkH<CAP> {
        fn seek(&mut self, to: SeekFrom) -> io::Result<u64> {
            unsafe { (*self.p).seek(to) }
        }
    }

    // ------------------------------------------------------------------------------------
    // Src: Read + Seek + Clone over a fixed array with a logical length.
    // ------------------------------------------------------------------------------------
    #[derive(Clone)]
    pub struct Src<const N: usize> {
        pub buf: [u8; N],
        pub len: usize,
        pub pos: usize,
        pub env: Env,
    }
    impl<const N: usize> Src<N> {
        pub fn new(buf: [u8; N], len: usize) -> Self {
            Src { buf, len, pos: 0, env: Env::quiet() }
        }
        pub fn with_env(buf: [u8; N], len: usize, env: Env) -> Self {
            Src { buf, len, pos: 0, env }
        }
    }
    impl<const N: usize> Read for Src<N> {
        fn read(&mut self, out: &mut [u8]) -> io::Result<usize> {
            let lim = self.env.step(K_READ)?;
            let avail = if self.pos < self.len { self.len - self.pos } else { 0 };
            let mut n = if out.len() < avail { out.len() } else { avail };
            if n > lim {
                n = lim;
            }
            let mut i = 0;
            while i < n {
                let idx = self.pos + i;
                out[i] = if idx < N { self.buf[idx] } else { 0 };
                i += 1;
            }
            self.pos += n;
            Ok(n)
        }
        fn read_exact(&mut self, out: &mut [u8]) -> io::Result<()> {
            if !self.env.short {
                if out.is_empty() {
                    return Ok(());
                }
                self.env.step(K_READ)?;
                let avail = if self.pos < self.len { self.len - self.pos } else { 0 };
                let want = out.len();
                let n = if want < avail { want } else { avail };
                let mut i = 0;
                while i < n {
                    let idx = self.pos + i;
                    out[i] = if idx < N { self.buf[idx] } else { 0 };
                    i += 1;
                }
                self.pos += n;
                if n < want {
                    return Err(io::Error::from(io::ErrorKind::UnexpectedEof));
                }
                return Ok(());
            }
            let mut done = 0;
            while done < out.len() {
                match self.read(&mut out[done..]) {
                    Ok(0) => return Err(io::Error::from(io::ErrorKind::UnexpectedEof)),
                    Ok(n) => done += n,
                    Err(e) => return Err(e),
                }
            }
            Ok(())
        }
    }
    impl<const N: usize> Seek for Src<N> {
        fn seek(&mut self, to: SeekFrom) -> io::Result<u64> {
            self.env.step(K_SEEK)?;
            let np: i128 = match to {
                SeekFrom::Start(n) => n as i128,
                SeekFrom::End(d) => self.len as i128 + d as i128,
                SeekFrom::Current(d) => self.pos as i128 + d as i128,
            };
            if np < 0 || np > (u32::MAX as i128) {
                return Err(io::Error::from(io::ErrorKind::InvalidInput));
            }
            self.pos = np as usize;
            Ok(self.pos as u64)
        }
    }

    /// A `Read` that is pure environment: arbitrary bytes in arbitrary short chunks, then EOF
    /// (or an error). `total` bytes are available; each call returns at most 1 + (sched&3).
    pub struct EnvReader<const N: usize> {
        pub data: [u8; N],
        pub total: usize,
        pub pos: usize,
        pub env: Env,
    }
    impl<const N: usize> Read for EnvReader<N> {
        fn read(&mut self, out: &mut [u8]) -> io::Result<usize> {
            let lim = self.env.step(K_READ)?;
            let avail = if self.pos < self.total { self.total - self.pos } else { 0 };
            let mut n = if out.len() < avail { out.len() } else { avail };
            if n > lim {
                n = lim;
            }
            let mut i = 0;
            while i < n {
                out[i] = self.data[self.pos + i];
                i += 1;
            }
            self.pos += n;
            Ok(n)
        }
    }

    // ------------------------------------------------------------------------------------
    // Stubs (environment / out-of-reach library code); every use is listed in the evidence.
    // ------------------------------------------------------------------------------------
    /// `alloc::fmt::format` -> empty string: message text is not part of any property.
    pub fn stub_format(_args: core::fmt::Arguments<'_>) -> String {
        String::new()
    }
    /// `core::fmt::write` (the formatting engine behind write!/format!) -> no output, Ok: the text of
    /// diagnostics (e.g. the message ZipWriter's Drop prints to stderr) is not part of any property.
    pub fn stub_fmt_write(_out: &mut dyn core::fmt::Write, _args: core::fmt::Arguments<'_>) -> core::fmt::Result {
        Ok(())
    }
    /// crc32fast CPU feature detection -> portable baseline implementation.
    pub fn stub_crc_specialized(_init: u32, _amount: u64) -> Option<crc32fast::Hasher> {
        None
    }
    /// `RandomState::new` reads OS randomness (FFI); the hash keys are not part of any property.
    pub fn stub_random_state() -> std::collections::hash_map::RandomState {
        // SAFETY of the model: RandomState is two u64 keys.
        unsafe { core::mem::transmute::<[u64; 2], std::collections::hash_map::RandomState>([1, 2]) }
    }
    /// `HashMap<String, usize>::insert` -> no-op (name lookup is outside every claim).
    pub fn stub_hashmap_insert<K, V, S, A: std::alloc::Allocator>(
        _m: &mut std::collections::HashMap<K, V, S, A>,
        k: K,
        v: V,
    ) -> Option<V> {
        core::mem::forget(k);
        core::mem::forget(v);
        None
    }
    /// `std::io::copy` by its documented contract (read until Ok(0), write_all every chunk,
    /// return the byte count; the harness sources never report Interrupted) with a 4-byte buffer instead of std's 8 KiB
    /// uninitialised stack buffer (whose initialisation alone exceeds the array-theory budget).
    pub fn stub_io_copy<R: Read + ?Sized, W: Write + ?Sized>(reader: &mut R, writer: &mut W) -> io::Result<u64> {
        let mut buf = [0u8; 4];
        let mut total = 0u64;
        loop {
            let n = match reader.read(&mut buf) {
                Ok(0) => return Ok(total),
                Ok(n) => n,
                Err(e) => return Err(e),
            };
            writer.write_all(&buf[..n])?;
            total += n as u64;
        }
    }
    /// CPU feature detection (inline `cpuid` asm is not modelled): report "no extensions", so the
    /// portable software implementations of aes/sha1 are the code that is encoded.
    #[cfg(target_arch = "x86_64")]
    pub fn stub_cpuid(_leaf: u32) -> core::arch::x86_64::CpuidResult {
        core::arch::x86_64::CpuidResult { eax: 0, ebx: 0, ecx: 0, edx: 0 }
    }
    #[cfg(target_arch = "x86_64")]
    pub fn stub_cpuid_count(_leaf: u32, _sub: u32) -> core::arch::x86_64::CpuidResult {
        core::arch::x86_64::CpuidResult { eax: 0, ebx: 0, ecx: 0, edx: 0 }
    }
    /// PBKDF2 (1000 HMAC-SHA1 rounds per block) is environment: an arbitrary derived key.
    #[cfg(feature = "aes-crypto")]
    pub fn stub_pbkdf2_any<PRF>(_password: &[u8], _salt: &[u8], _rounds: u32, res: &mut [u8])
    where
        PRF: hmac::digest::KeyInit + hmac::digest::Update + hmac::digest::FixedOutput + Clone + Sync,
    {
        let mut i = 0;
        while i < res.len() {
            res[i] = kani::any();
            i += 1;
        }
    }
    /// The wall clock is environment: an arbitrary instant.
    #[cfg(feature = "time")]
    pub fn stub_now_utc() -> time::OffsetDateTime {
        time::OffsetDateTime::UNIX_EPOCH
    }

    // ------------------------------------------------------------------------------------
    // Reference models (independent of the crate's code)
    // ------------------------------------------------------------------------------------
    /// bitwise reflected CRC-32 step (ISO 3309 / poly 0xEDB88320), no table
    #[inline]
    fn crc_bit(crc: u32) -> u32 {
        if crc & 1 != 0 { (crc >> 1) ^ 0xEDB8_8320 } else { crc >> 1 }
    }
    pub fn ref_crc32_step(crc: u32, b: u8) -> u32 {
        // eight shift/xor rounds written out (no loop, so no unwinding bound is consumed)
        let c = crc ^ b as u32;
        crc_bit(crc_bit(crc_bit(crc_bit(crc_bit(crc_bit(crc_bit(crc_bit(c))))))))
    }
    pub fn ref_crc32(data: &[u8], n: usize) -> u32 {
        let mut crc = 0xFFFF_FFFFu32;
        let mut i = 0;
        while i < n {
            crc = ref_crc32_step(crc, data[i]);
            i += 1;
        }
        !crc
    }

    /// little-endian field extraction at fixed offsets (APPNOTE layout judge)
    pub fn le16(b: &[u8], o: usize) -> u16 {
        (b[o] as u16) | ((b[o + 1] as u16) << 8)
    }
    pub fn le32(b: &[u8], o: usize) -> u32 {
        (b[o] as u32) | ((b[o + 1] as u32) << 8) | ((b[o + 2] as u32) << 16) | ((b[o + 3] as u32) << 24)
    }
    pub fn le64(b: &[u8], o: usize) -> u64 {
        (le32(b, o) as u64) | ((le32(b, o + 4) as u64) << 32)
    }
    pub fn put16(b: &mut [u8], o: usize, v: u16) {
        b[o] = v as u8;
        b[o + 1] = (v >> 8) as u8;
    }
    pub fn put32(b: &mut [u8], o: usize, v: u32) {
        put16(b, o, v as u16);
        put16(b, o + 2, (v >> 16) as u16);
    }
    pub fn put64(b: &mut [u8], o: usize, v: u64) {
        put32(b, o, v as u32);
        put32(b, o + 4, (v >> 32) as u32);
    }

    pub const SIG_LOCAL: u32 = 0x0403_4b50;
    pub const SIG_CENTRAL: u32 = 0x0201_4b50;
    pub const SIG_EOCD: u32 = 0x0605_4b50;
    pub const SIG_EOCD64: u32 = 0x0606_4b50;
    pub const SIG_LOC64: u32 = 0x0706_4b50;

    /// The PKWARE traditional cipher, written from APPNOTE 6.1 with the bitwise CRC step.
    #[derive(Clone, Copy, PartialEq, Eq)]
    pub struct RefPk {
        pub k0: u32,
        pub k1: u32,
        pub k2: u32,
    }
    impl RefPk {
        pub fn init() -> RefPk {
            RefPk { k0: 0x1234_5678, k1: 0x2345_6789, k2: 0x3456_7890 }
        }
        pub fn update(&mut self, p: u8) {
            self.k0 = ref_crc32_step(self.k0, p);
            self.k1 = self.k1.wrapping_add(self.k0 & 0xff);
            self.k1 = self.k1.wrapping_mul(134_775_813).wrapping_add(1);
            self.k2 = ref_crc32_step(self.k2, (self.k1 >> 24) as u8);
        }
        pub fn stream(&self) -> u8 {
            let t = (self.k2 | 2) as u16;
            (t.wrapping_mul(t ^ 1) >> 8) as u8
        }
        pub fn dec(&mut self, c: u8) -> u8 {
            let p = c ^ self.stream();
            self.update(p);
            p
        }
        pub fn enc(&mut self, p: u8) -> u8 {
            let c = p ^ self.stream();
            self.update(p);
            c
        }
    }
}
#[allow(unused_imports)]
pub(crate) use k::*;

// ---------------------------------------------------------------------------------------------
// Builders for crate-internal state with symbolic scalar fields
// ---------------------------------------------------------------------------------------------
#[allow(dead_code, unused_imports, deprecated)]
pub(crate) mod b {
    use crate::compression::CompressionMethod;
    use crate::types::{AtomicU64, DateTime, System, ZipFileData};

    pub fn any_system() -> System {
        let s: u8 = kani::any();
        match s % 3 {
            0 => System::Dos,
            1 => System::Unix,
            _ => System::Unknown,
        }
    }
    /// A ZipFileData whose scalar fields are all symbolic; name/extra are given (fixed length).
    pub fn any_zfd(name: String, extra: Vec<u8>) -> ZipFileData {
        ZipFileData {
            system: any_system(),
            version_made_by: kani::any(),
            encrypted: kani::any(),
            using_data_descriptor: kani::any(),
            compression_method: CompressionMethod::from_u16(kani::any()),
            compression_level: None,
            last_modified_time: DateTime::from_msdos(kani::any(), kani::any()),
            crc32: kani::any(),
            compressed_size: kani::any(),
            uncompressed_size: kani::any(),
            file_name: name,
            file_name_raw: Vec::new(),
            extra_field: extra,
            file_comment: String::new(),
            header_start: kani::any(),
            central_header_start: 0,
            data_start: AtomicU64::new(0),
            external_attributes: kani::any(),
            large_file: kani::any(),
            aes_mode: None,
        }
    }
    /// one symbolic ASCII byte as a String (length is concrete: 1)
    pub fn ascii1() -> String {
        let c: u8 = kani::any();
        kani::assume(c < 0x80);
        let v: Vec<u8> = vec![c];
        unsafe { String::from_utf8_unchecked(v) }
    }
    /// a 2-byte name (length concrete): either two ASCII bytes or one 2-byte UTF-8 scalar
    pub fn name2() -> String {
        let a: u8 = kani::any();
        let b: u8 = kani::any();
        let ascii_pair = a < 0x80 && b < 0x80;
        let scalar = a >= 0xC2 && a <= 0xDF && b >= 0x80 && b <= 0xBF;
        kani::assume(ascii_pair || scalar);
        let v: Vec<u8> = vec![a, b];
        unsafe { String::from_utf8_unchecked(v) }
    }
}
#[allow(unused_imports)]
pub(crate) use b::*;

// Generated at check time by the driver from CPython's cp437 codec: REF_CP437: [u32; 256]
include!(concat!(env!("ZIP_VERIF_GEN_DIR"), "/cp437_table.rs"));


// ---------------------------------------------------------------------------------------------
// ref_build: an independent byte-level producer of ZIP records (APPNOTE 6.3.9 layouts).
// Layout (lengths) is concrete at every call site; values may be symbolic.
// ---------------------------------------------------------------------------------------------
#[allow(dead_code)]
pub(crate) mod r {
    use super::k::*;

    #[derive(Clone, Copy)]
    pub struct EntryVals {
        pub made_by: u16,
        pub needed: u16,
        pub flags: u16,
        pub method: u16,
        pub time: u16,
        pub date: u16,
        pub crc: u32,
        pub csize: u32,
        pub usize_: u32,
        pub disk: u16,
        pub iattr: u16,
        pub eattr: u32,
        pub offset: u32,
    }
    impl EntryVals {
        pub fn any() -> EntryVals {
            EntryVals {
                made_by: kani::any(),
                needed: kani::any(),
                flags: kani::any(),
                method: kani::any(),
                time: kani::any(),
                date: kani::any(),
                crc: kani::any(),
                csize: kani::any(),
                usize_: kani::any(),
                disk: kani::any(),
                iattr: kani::any(),
                eattr: kani::any(),
                offset: kani::any(),
            }
        }
    }
    fn put_bytes(b: &mut [u8], at: usize, src: &[u8]) -> usize {
        let mut i = 0;
        while i < src.len() {
            b[at + i] = src[i];
            i += 1;
        }
        at + src.len()
    }
    /// local file header; sizes/crc given explicitly (they may legitimately differ from the
    /// central record, e.g. zero under bit 3)
    #[allow(clippy::too_many_arguments)]
    pub fn put_local(b: &mut [u8], at: usize, v: &EntryVals, crc: u32, csize: u32, usize_: u32, name: &[u8], extra: &[u8]) -> usize {
        put32(b, at, SIG_LOCAL);
        put16(b, at + 4, v.needed);
        put16(b, at + 6, v.flags);
        put16(b, at + 8, v.method);
        put16(b, at + 10, v.time);
        put16(b, at + 12, v.date);
        put32(b, at + 14, crc);
        put32(b, at + 18, csize);
        put32(b, at + 22, usize_);
        put16(b, at + 26, name.len() as u16);
        put16(b, at + 28, extra.len() as u16);
        let p = put_bytes(b, at + 30, name);
        put_bytes(b, p, extra)
    }
    pub fn put_central(b: &mut [u8], at: usize, v: &EntryVals, name: &[u8], extra: &[u8], comment: &[u8]) -> usize {
        put32(b, at, SIG_CENTRAL);
        put16(b, at + 4, v.made_by);
        put16(b, at + 6, v.needed);
        put16(b, at + 8, v.flags);
        put16(b, at + 10, v.method);
        put16(b, at + 12, v.time);
        put16(b, at + 14, v.date);
        put32(b, at + 16, v.crc);
        put32(b, at + 20, v.csize);
        put32(b, at + 24, v.usize_);
        put16(b, at + 28, name.len() as u16);
        put16(b, at + 30, extra.len() as u16);
        put16(b, at + 32, comment.len() as u16);
        put16(b, at + 34, v.disk);
        put16(b, at + 36, v.iattr);
        put32(b, at + 38, v.eattr);
        put32(b, at + 42, v.offset);
        let p = put_bytes(b, at + 46, name);
        let p = put_bytes(b, p, extra);
        put_bytes(b, p, comment)
    }
    #[allow(clippy::too_many_arguments)]
    pub fn put_eocd(b: &mut [u8], at: usize, disk: u16, cd_disk: u16, n_here: u16, n_total: u16, cd_size: u32, cd_off: u32, comment: &[u8]) -> usize {
        put32(b, at, SIG_EOCD);
        put16(b, at + 4, disk);
        put16(b, at + 6, cd_disk);
        put16(b, at + 8, n_here);
        put16(b, at + 10, n_total);
        put32(b, at + 12, cd_size);
        put32(b, at + 16, cd_off);
        put16(b, at + 20, comment.len() as u16);
        put_bytes(b, at + 22, comment)
    }
    #[allow(clippy::too_many_arguments)]
    pub fn put_eocd64(b: &mut [u8], at: usize, made_by: u16, needed: u16, disk: u32, cd_disk: u32, n_here: u64, n_total: u64, cd_size: u64, cd_off: u64) -> usize {
        put32(b, at, SIG_EOCD64);
        put64(b, at + 4, 44);
        put16(b, at + 12, made_by);
        put16(b, at + 14, needed);
        put32(b, at + 16, disk);
        put32(b, at + 20, cd_disk);
        put64(b, at + 24, n_here);
        put64(b, at + 32, n_total);
        put64(b, at + 40, cd_size);
        put64(b, at + 48, cd_off);
        at + 56
    }
    pub fn put_loc64(b: &mut [u8], at: usize, disk: u32, eocd64_off: u64, ndisks: u32) -> usize {
        put32(b, at, SIG_LOC64);
        put32(b, at + 4, disk);
        put64(b, at + 8, eocd64_off);
        put32(b, at + 16, ndisks);
        at + 20
    }
}
#[allow(unused_imports)]
pub(crate) use r::*;
