// Shared harness kit: environment models (sinks/sources with short I/O and faults), stubs and
// independent reference models (oracles). Compiled only under `cargo kani` (cfg(kani)) as
// `crate::verif_kit`. Nothing here is used by the crate itself.
#[allow(dead_code, unused_imports, unused_variables, clippy::all)]
pub(crate) mod k {
    use std::io::{self, Read, Seek, SeekFrom, Write};

    // ------------------------------------------------------------------------------------
    // Environment: fault/short-I/O control shared by Sink and Src
    // ------------------------------------------------------------------------------------
    #[derive(Clone, Copy)]
    pub struct Env {
        /// number of I/O calls made so far (read, write, flush, seek)
        pub calls: u32,
        /// the call with this index fails (u32::MAX: never)
        pub fault_at: u32,
        /// which kinds may fail: bit0 read, bit1 write, bit2 flush, bit3 seek
        pub fault_kinds: u8,
        /// short I/O schedule: 2 bits per call, accepted/returned length is limited to
        /// 1 + (bits & 3) when `short` is true
        pub sched: u64,
        pub short: bool,
        /// set once a fault was delivered
        pub faulted: bool,
    }
    pub const K_READ: u8 = 1;
    pub const K_WRITE: u8 = 2;
    pub const K_FLUSH: u8 = 4;
    pub const K_SEEK: u8 = 8;
    impl Env {
        pub const fn quiet() -> Env {
            Env { calls: 0, fault_at: u32::MAX, fault_kinds: 0, sched: 0, short: false, faulted: false }
        }
        pub fn short(sched: u64) -> Env {
            Env { calls: 0, fault_at: u32::MAX, fault_kinds: 0, sched, short: true, faulted: false }
        }
        pub fn faulty(fault_at: u32, kinds: u8) -> Env {
            Env { calls: 0, fault_at, fault_kinds: kinds, sched: 0, short: false, faulted: false }
        }
        #[inline]
        fn step(&mut self, kind: u8) -> io::Result<usize> {
            let idx = self.calls;
            self.calls = self.calls.wrapping_add(1);
            if idx == self.fault_at && (self.fault_kinds & kind) != 0 {
                self.faulted = true;
                return Err(io::Error::from(io::ErrorKind::Other));
            }
            let lim = if self.short {
                let l = 1 + (self.sched & 3) as usize;
                self.sched >>= 2;
                l
            } else {
                usize::MAX
            };
            Ok(lim)
        }
    }

    // ------------------------------------------------------------------------------------
    // Sink: Write + Seek (+ Read) over a fixed array. `base` is a (possibly symbolic) logical
    // offset of buf[0]: the archive is imagined to start `base` bytes into a larger file.
    // ------------------------------------------------------------------------------------
    pub struct Sink<const CAP: usize> {
        pub buf: [u8; CAP],
        pub off: usize,
        pub end: usize,
        pub base: u64,
        pub env: Env,
        /// a write went past CAP (bytes dropped) - harnesses assert this stays false
        pub overflow: bool,
    }
    impl<const CAP: usize> Sink<CAP> {
        pub fn new() -> Self {
            Sink { buf: [0u8; CAP], off: 0, end: 0, base: 0, env: Env::quiet(), overflow: false }
        }
        pub fn with_env(env: Env) -> Self {
            Sink { buf: [0u8; CAP], off: 0, end: 0, base: 0, env, overflow: false }
        }
        pub fn with_base(base: u64) -> Self {
            Sink { buf: [0u8; CAP], off: 0, end: 0, base, env: Env::quiet(), overflow: false }
        }
        pub fn from_bytes(src: &[u8]) -> Self {
            let mut s = Self::new();
            let mut i = 0;
            while i < src.len() && i < CAP {
                s.buf[i] = src[i];
                i += 1;
            }
            s.end = src.len();
            s
        }
    }
    impl<const CAP: usize> Write for Sink<CAP> {
        fn write(&mut self, data: &[u8]) -> io::Result<usize> {
            let lim = self.env.step(K_WRITE)?;
            let n = if data.len() < lim { data.len() } else { lim };
            let mut i = 0;
            while i < n {
                let idx = self.off + i;
                if idx < CAP {
                    self.buf[idx] = data[i];
                } else {
                    self.overflow = true;
                }
                i += 1;
            }
            self.off += n;
            if self.off > self.end {
                self.end = self.off;
            }
            Ok(n)
        }
        fn flush(&mut self) -> io::Result<()> {
            self.env.step(K_FLUSH)?;
            Ok(())
        }
    }
    impl<const CAP: usize> Read for Sink<CAP> {
        fn read(&mut self, out: &mut [u8]) -> io::Result<usize> {
            let lim = self.env.step(K_READ)?;
            let avail = if self.off < self.end { self.end - self.off } else { 0 };
            let mut n = if out.len() < avail { out.len() } else { avail };
            if n > lim {
                n = lim;
            }
            let mut i = 0;
            while i < n {
                let idx = self.off + i;
                out[i] = if idx < CAP { self.buf[idx] } else { 0 };
                i += 1;
            }
            self.off += n;
            Ok(n)
        }
    }
    impl<const CAP: usize> Seek for Sink<CAP> {
        fn seek(&mut self, to: SeekFrom) -> io::Result<u64> {
            self.env.step(K_SEEK)?;
            let np: i128 = match to {
                SeekFrom::Start(n) => n as i128 - self.base as i128,
                SeekFrom::End(d) => self.end as i128 + d as i128,
                SeekFrom::Current(d) => self.off as i128 + d as i128,
            };
            if np < 0 || np > (u32::MAX as i128) {
                return Err(io::Error::from(io::ErrorKind::InvalidInput));
            }
            self.off = np as usize;
            Ok(self.base + self.off as u64)
        }
    }

    // ------------------------------------------------------------------------------------
    // Src: Read + Seek + Clone over a fixed array with a logical length.
    // ------------------------------------------------------------------------------------
    #[derive(Clone)]
    pub struct Src<const N: usize> {
        pub buf: [u8; N],
        pub len: usize,
        pub pos: usize,
        pub env: Env,
    }
    impl<const N: usize> Src<N> {
        pub fn new(buf: [u8; N], len: usize) -> Self {
            Src { buf, len, pos: 0, env: Env::quiet() }
        }
        pub fn with_env(buf: [u8; N], len: usize, env: Env) -> Self {
            Src { buf, len, pos: 0, env }
        }
    }
    impl<const N: usize> Read for Src<N> {
        fn read(&mut self, out: &mut [u8]) -> io::Result<usize> {
            let lim = self.env.step(K_READ)?;
            let avail = if self.pos < self.len { self.len - self.pos } else { 0 };
            let mut n = if out.len() < avail { out.len() } else { avail };
            if n > lim {
                n = lim;
            }
            let mut i = 0;
            while i < n {
                let idx = self.pos + i;
                out[i] = if idx < N { self.buf[idx] } else { 0 };
                i += 1;
            }
            self.pos += n;
            Ok(n)
        }
    }
    impl<const N: usize> Seek for Src<N> {
        fn seek(&mut self, to: SeekFrom) -> io::Result<u64> {
            self.env.step(K_SEEK)?;
            let np: i128 = match to {
                SeekFrom::Start(n) => n as i128,
                SeekFrom::End(d) => self.len as i128 + d as i128,
                SeekFrom::Current(d) => self.pos as i128 + d as i128,
            };
            if np < 0 || np > (u32::MAX as i128) {
                return Err(io::Error::from(io::ErrorKind::InvalidInput));
            }
            self.pos = np as usize;
            Ok(self.pos as u64)
        }
    }

    /// A `Read` that is pure environment: arbitrary bytes in arbitrary short chunks, then EOF
    /// (or an error). `total` bytes are available; each call returns at most 1 + (sched&3).
    pub struct EnvReader<const N: usize> {
        pub data: [u8; N],
        pub total: usize,
        pub pos: usize,
        pub env: Env,
    }
    impl<const N: usize> Read for EnvReader<N> {
        fn read(&mut self, out: &mut [u8]) -> io::Result<usize> {
            let lim = self.env.step(K_READ)?;
            let avail = if self.pos < self.total { self.total - self.pos } else { 0 };
            let mut n = if out.len() < avail { out.len() } else { avail };
            if n > lim {
                n = lim;
            }
            let mut i = 0;
            while i < n {
                out[i] = self.data[self.pos + i];
                i += 1;
            }
            self.pos += n;
            Ok(n)
        }
    }

    // ------------------------------------------------------------------------------------
    // Stubs (environment / out-of-reach library code); every use is listed in the evidence.
    // ------------------------------------------------------------------------------------
    /// `alloc::fmt::format` -> empty string: message text is not part of any property.
    pub fn stub_format(_args: core::fmt::Arguments<'_>) -> String {
        String::new()
    }
    /// crc32fast CPU feature detection -> portable baseline implementation.
    pub fn stub_crc_specialized(_init: u32, _amount: u64) -> Option<crc32fast::Hasher> {
        None
    }
    /// `RandomState::new` reads OS randomness (FFI); the hash keys are not part of any property.
    pub fn stub_random_state() -> std::collections::hash_map::RandomState {
        // SAFETY of the model: RandomState is two u64 keys.
        unsafe { core::mem::transmute::<[u64; 2], std::collections::hash_map::RandomState>([1, 2]) }
    }
    /// `HashMap<String, usize>::insert` -> no-op (name lookup is outside every claim).
    pub fn stub_hashmap_insert<K, V, S, A: std::alloc::Allocator>(
        _m: &mut std::collections::HashMap<K, V, S, A>,
        k: K,
        v: V,
    ) -> Option<V> {
        core::mem::forget(k);
        core::mem::forget(v);
        None
    }
    /// The wall clock is environment: an arbitrary instant.
    #[cfg(feature = "time")]
    pub fn stub_now_utc() -> time::OffsetDateTime {
        time::OffsetDateTime::UNIX_EPOCH
    }

    // ------------------------------------------------------------------------------------
    // Reference models (independent of the crate's code)
    // ------------------------------------------------------------------------------------
    /// bitwise reflected CRC-32 step (ISO 3309 / poly 0xEDB88320), no table
    pub fn ref_crc32_step(mut crc: u32, b: u8) -> u32 {
        crc ^= b as u32;
        let mut k = 0;
        while k < 8 {
            crc = if crc & 1 != 0 { (crc >> 1) ^ 0xEDB8_8320 } else { crc >> 1 };
            k += 1;
        }
        crc
    }
    pub fn ref_crc32(data: &[u8], n: usize) -> u32 {
        let mut crc = 0xFFFF_FFFFu32;
        let mut i = 0;
        while i < n {
            crc = ref_crc32_step(crc, data[i]);
            i += 1;
        }
        !crc
    }

    /// little-endian field extraction at fixed offsets (APPNOTE layout judge)
    pub fn le16(b: &[u8], o: usize) -> u16 {
        (b[o] as u16) | ((b[o + 1] as u16) << 8)
    }
    pub fn le32(b: &[u8], o: usize) -> u32 {
        (b[o] as u32) | ((b[o + 1] as u32) << 8) | ((b[o + 2] as u32) << 16) | ((b[o + 3] as u32) << 24)
    }
    pub fn le64(b: &[u8], o: usize) -> u64 {
        (le32(b, o) as u64) | ((le32(b, o + 4) as u64) << 32)
    }
    pub fn put16(b: &mut [u8], o: usize, v: u16) {
        b[o] = v as u8;
        b[o + 1] = (v >> 8) as u8;
    }
    pub fn put32(b: &mut [u8], o: usize, v: u32) {
        put16(b, o, v as u16);
        put16(b, o + 2, (v >> 16) as u16);
    }
    pub fn put64(b: &mut [u8], o: usize, v: u64) {
        put32(b, o, v as u32);
        put32(b, o + 4, (v >> 32) as u32);
    }

    pub const SIG_LOCAL: u32 = 0x0403_4b50;
    pub const SIG_CENTRAL: u32 = 0x0201_4b50;
    pub const SIG_EOCD: u32 = 0x0605_4b50;
    pub const SIG_EOCD64: u32 = 0x0606_4b50;
    pub const SIG_LOC64: u32 = 0x0706_4b50;

    /// The PKWARE traditional cipher, written from APPNOTE 6.1 with the bitwise CRC step.
    #[derive(Clone, Copy, PartialEq, Eq)]
    pub struct RefPk {
        pub k0: u32,
        pub k1: u32,
        pub k2: u32,
    }
    impl RefPk {
        pub fn init() -> RefPk {
            RefPk { k0: 0x1234_5678, k1: 0x2345_6789, k2: 0x3456_7890 }
        }
        pub fn update(&mut self, p: u8) {
            self.k0 = ref_crc32_step(self.k0, p);
            self.k1 = self.k1.wrapping_add(self.k0 & 0xff);
            self.k1 = self.k1.wrapping_mul(134_775_813).wrapping_add(1);
            self.k2 = ref_crc32_step(self.k2, (self.k1 >> 24) as u8);
        }
        pub fn stream(&self) -> u8 {
            let t = (self.k2 | 2) as u16;
            (t.wrapping_mul(t ^ 1) >> 8) as u8
        }
        pub fn dec(&mut self, c: u8) -> u8 {
            let p = c ^ self.stream();
            self.update(p);
            p
        }
        pub fn enc(&mut self, p: u8) -> u8 {
            let c = p ^ self.stream();
            self.update(p);
            c
        }
    }
}
#[allow(unused_imports)]
pub(crate) use k::*;
