// Harnesses for src/read/stream.rs and read_zipfile_from_stream: C10 (streaming reader agrees
// with the builder / seekable reader), C05 (hostile local headers), C07 (stream extractor).
#[allow(unused_imports)]
use crate::verif_kit::*;
#[allow(unused_imports)]
use std::io::Read;
#[allow(unused_imports)]
use crate::compression::CompressionMethod;

/// expected decoding of a 1-byte name
fn s_ref_name1(b: u8, utf8: bool) -> char {
    if b < 0x80 {
        b as char
    } else if utf8 {
        '\u{FFFD}'
    } else {
        char::from_u32(REF_CP437[b as usize]).unwrap()
    }
}

fn s_ref_unix_mode(made_by: u16, eattr: u32) -> Option<u32> {
    if eattr == 0 {
        return None;
    }
    match made_by >> 8 {
        3 => Some(eattr >> 16),
        0 => {
            let mut m = if eattr & 0x10 != 0 { 0o040000 | 0o775 } else { 0o100000 | 0o664 };
            if eattr & 1 != 0 {
                m &= 0o555;
            }
            Some(m)
        }
        _ => None,
    }
}

/// two stored entries (1-byte names, payloads P1/P2), central directory, end record
pub(crate) struct Built<const N: usize> {
    pub b: [u8; N],
    pub len: usize,
    pub v: [EntryVals; 2],
    pub name: [[u8; 1]; 2],
    pub l2: usize,
    pub cd: usize,
    pub cd2: usize,
    pub eocd: usize,
}
pub(crate) fn build2<const N: usize, const P1: usize, const P2: usize>(p1: &[u8; P1], p2: &[u8; P2]) -> Built<N> {
    let mut b = [0u8; N];
    let mut v = [EntryVals::any(), EntryVals::any()];
    let name: [[u8; 1]; 2] = [kani::any(), kani::any()];
    let mut k = 0;
    while k < 2 {
        // what this crate's writer (and any plain producer) emits: no encryption, sizes in the local header
        v[k].flags &= 1 << 11;
        v[k].method = 0;
        k += 1;
    }
    v[0].csize = P1 as u32;
    v[0].usize_ = P1 as u32;
    v[0].crc = ref_crc32(p1, P1);
    v[0].offset = 0;
    v[1].csize = P2 as u32;
    v[1].usize_ = P2 as u32;
    v[1].crc = ref_crc32(p2, P2);
    let mut p = put_local(&mut b, 0, &v[0], v[0].crc, v[0].csize, v[0].usize_, &name[0], &[]);
    let mut i = 0;
    while i < P1 {
        b[p + i] = p1[i];
        i += 1;
    }
    p += P1;
    let l2 = p;
    v[1].offset = l2 as u32;
    p = put_local(&mut b, p, &v[1], v[1].crc, v[1].csize, v[1].usize_, &name[1], &[]);
    let mut i = 0;
    while i < P2 {
        b[p + i] = p2[i];
        i += 1;
    }
    p += P2;
    let cd = p;
    p = put_central(&mut b, p, &v[0], &name[0], &[], &[]);
    let cd2 = p;
    p = put_central(&mut b, p, &v[1], &name[1], &[], &[]);
    let eocd = p;
    p = put_eocd(&mut b, p, 0, 0, 2, 2, (eocd - cd) as u32, cd as u32, &[]);
    Built { b, len: p, v, name, l2, cd, cd2, eocd }
}

macro_rules! c10_stream_entries {
    ($name:ident, $p1:expr, $p2:expr, $short:expr, $unwind:expr) => {
        #[kani::proof]
        #[kani::unwind($unwind)]
        #[kani::stub(crc32fast::Hasher::internal_new_specialized, crate::verif_kit::stub_crc_specialized)]
        fn $name() {
            const P1: usize = $p1;
            const P2: usize = $p2;
            const N: usize = 192;
            let pay1: [u8; P1] = kani::any();
            let pay2: [u8; P2] = kani::any();
            let bt = build2::<N, P1, P2>(&pay1, &pay2);
            let env = if $short { Env::short(kani::any()) } else { Env::quiet() };
            let mut src = Src::<N>::with_env(bt.b, bt.len, env);
            // how much of each entry the consumer reads before moving on: none, part or all
            let c1: usize = kani::any();
            let c2: usize = kani::any();
            kani::assume(c1 <= P1 + 1 && c2 <= P2 + 1);
            let mut k = 0;
            while k < 2 {
                let (pl, want, cons): (usize, &[u8], usize) = if k == 0 { (P1, &pay1, c1) } else { (P2, &pay2, c2) };
                match read_zipfile_from_stream(&mut src) {
                    Ok(Some(mut f)) => {
                        let utf8 = bt.v[k].flags & (1 << 11) != 0;
                        {
                            let mut it = f.name().chars();
                            assert_eq!(it.next(), Some(s_ref_name1(bt.name[k][0], utf8)));
                            assert!(it.next().is_none());
                        }
                        assert_eq!(f.name_raw()[0], bt.name[k][0]);
                        assert_eq!(f.size(), pl as u64);
                        assert_eq!(f.compressed_size(), pl as u64);
                        assert!(f.compression() == CompressionMethod::Stored);
                        assert_eq!(f.crc32(), bt.v[k].crc);
                        assert_eq!(f.last_modified().datepart(), bt.v[k].date);
                        assert_eq!(f.last_modified().timepart(), bt.v[k].time);
                        let mut n = 0;
                        while n < cons {
                            let mut one = [0u8; 1];
                            match f.read(&mut one) {
                                Ok(m) => {
                                    if n < pl {
                                        assert_eq!(m, 1);
                                        assert_eq!(one[0], want[n]);
                                    } else {
                                        assert_eq!(m, 0);
                                    }
                                }
                                Err(e) => {
                                    core::mem::forget(e);
                                    assert!(false, "read of a well-formed streamed entry failed");
                                }
                            }
                            n += 1;
                        }
                        // releasing the entry (Drop) must leave the stream at the next record
                    }
                    Ok(None) => {
                        assert!(false, "entries ended early");
                    }
                    Err(e) => {
                        core::mem::forget(e);
                        assert!(false, "well-formed local header rejected by the streaming reader");
                    }
                }
                assert_eq!(src.pos, if k == 0 { bt.l2 } else { bt.cd });
                k += 1;
            }
            // the central directory signals the end of entries
            match read_zipfile_from_stream(&mut src) {
                Ok(None) => {}
                Ok(Some(f)) => {
                    core::mem::forget(f);
                    assert!(false, "entry reported past the last one");
                }
                Err(e) => {
                    core::mem::forget(e);
                    assert!(false, "error instead of end-of-entries");
                }
            }
            kani::cover!(c1 == 0 && c2 == P2 + 1);
            kani::cover!(c1 == P1 + 1 && c2 == 1);
        }
    };
}
/// C10/C09 streaming reader, two stored entries from the independent builder (all header values
/// symbolic: times, made-by, attributes, UTF-8 flag, 1-byte names; payloads 2 and 1 bytes with
/// their reference CRCs): each entry reports the builder's name/size/method/time/CRC and
/// content; for EVERY amount the consumer reads of each entry (0..=len, or to EOF) releasing the
/// entry leaves the stream exactly at the next record; after the last entry the central
/// directory signature yields end-of-entries (None).
// @h prop=C10,C04 tier=dev t=1500 mem=8 name=c10_stream_entries_p2_p1
c10_stream_entries!(c10_stream_entries_p2_p1, 2, 1, false, 8);
/// C10/C09 as above with an arbitrary short-read schedule on the underlying stream.
// @h prop=C10,C09 tier=dev t=3000 mem=10 name=c10_stream_entries_short_reads
c10_stream_entries!(c10_stream_entries_short_reads, 1, 1, true, 8);

macro_rules! c10_stream_one {
    ($name:ident, $p:expr, $cons:expr, $unwind:expr) => {
        #[kani::proof]
        #[kani::unwind($unwind)]
        #[kani::stub(crc32fast::Hasher::internal_new_specialized, crate::verif_kit::stub_crc_specialized)]
        fn $name() {
            const P: usize = $p;
            const CONS: usize = $cons; // how many 1-byte reads the consumer issues before moving on
            const N: usize = 64;
            let pay: [u8; P] = kani::any();
            let name: [u8; 1] = kani::any();
            let mut v = EntryVals::any();
            v.flags &= 1 << 11;
            v.method = 0;
            v.csize = P as u32;
            v.usize_ = P as u32;
            v.crc = ref_crc32(&pay, P);
            let mut b = [0u8; N];
            let mut p = put_local(&mut b, 0, &v, v.crc, v.csize, v.usize_, &name, &[]);
            let mut i = 0;
            while i < P {
                b[p + i] = pay[i];
                i += 1;
            }
            p += P;
            let next = p;
            // what follows the entry: the first central directory record's signature
            put32(&mut b, p, SIG_CENTRAL);
            let mut src = Src::<N>::new(b, p + 4);
            match read_zipfile_from_stream(&mut src) {
                Ok(Some(mut f)) => {
                    let utf8 = v.flags & (1 << 11) != 0;
                    {
                        let mut it = f.name().chars();
                        assert_eq!(it.next(), Some(s_ref_name1(name[0], utf8)));
                        assert!(it.next().is_none());
                    }
                    assert_eq!(f.name_raw()[0], name[0]);
                    assert_eq!(f.size(), P as u64);
                    assert_eq!(f.compressed_size(), P as u64);
                    assert!(f.compression() == CompressionMethod::Stored);
                    assert_eq!(f.crc32(), v.crc);
                    assert_eq!(f.last_modified().datepart(), v.date);
                    assert_eq!(f.last_modified().timepart(), v.time);
                    let mut n = 0;
                    while n < CONS {
                        let mut one = [0u8; 1];
                        match f.read(&mut one) {
                            Ok(m) => {
                                if n < P {
                                    assert_eq!(m, 1);
                                    assert_eq!(one[0], pay[n]);
                                } else {
                                    assert_eq!(m, 0);
                                }
                            }
                            Err(e) => {
                                core::mem::forget(e);
                                assert!(false, "read of a well-formed streamed entry failed");
                            }
                        }
                        n += 1;
                    }
                    // releasing the entry (Drop) drains what the consumer left unread
                }
                Ok(None) => {
                    assert!(false, "entry not reported");
                }
                Err(e) => {
                    core::mem::forget(e);
                    assert!(false, "well-formed local header rejected by the streaming reader");
                }
            }
            assert_eq!(src.pos, next, "stream not positioned at the next record after releasing the entry");
            // the central directory signals the end of entries
            match read_zipfile_from_stream(&mut src) {
                Ok(None) => {}
                Ok(Some(f)) => {
                    core::mem::forget(f);
                    assert!(false, "entry reported past the last one");
                }
                Err(e) => {
                    core::mem::forget(e);
                    assert!(false, "error instead of end-of-entries");
                }
            }
            kani::cover!(true);
        }
    };
}
/// C10 streaming reader, one stored entry from the independent builder (all header values
/// symbolic: times, made-by, attributes, UTF-8 flag, 1-byte name; 2-byte payload with its
/// reference CRC) followed by the central directory: name/size/method/time/CRC as built; the
/// consumer reads NOTHING before releasing the entry; the drop-time drain leaves the stream
/// exactly at the next record, where the central signature yields end-of-entries (None).
// @h prop=C10,C04 tier=dev t=600 mem=10 name=c10_stream_one_p2_read0 uws="fn:^std::ptr::drop_glue::<std::io::Error>$:2"
c10_stream_one!(c10_stream_one_p2_read0, 2, 0, 6);
/// C10 as above, the consumer reads 1 of the 2 bytes (partial consumption) before moving on.
// @h prop=C10,C04 tier=dev t=600 mem=10 name=c10_stream_one_p2_read1 uws="fn:^std::ptr::drop_glue::<std::io::Error>$:2"
c10_stream_one!(c10_stream_one_p2_read1, 2, 1, 6);
/// C10 as above, the consumer reads to end-of-file (2 bytes and the final 0, CRC gate passes).
// @h prop=C10,C04 tier=dev t=600 mem=10 name=c10_stream_one_p2_read3 uws="fn:^std::ptr::drop_glue::<std::io::Error>$:2"
c10_stream_one!(c10_stream_one_p2_read3, 2, 3, 6);

/// visitor that records what it was given
struct RecV {
    files: usize,
    metas: usize,
    meta_before_files_done: bool,
    fname: [u8; 2],
    mname: [u8; 2],
    mmode: [Option<u32>; 2],
    fbyte: [u8; 2],
}
impl ZipStreamVisitor for RecV {
    fn visit_file(&mut self, file: &mut ZipFile<'_>) -> ZipResult<()> {
        if self.metas > 0 {
            self.meta_before_files_done = true;
        }
        if self.files < 2 {
            self.fname[self.files] = file.name_raw()[0];
            let mut one = [0u8; 1];
            match file.read(&mut one) {
                Ok(1) => self.fbyte[self.files] = one[0],
                Ok(_) => {}
                Err(e) => {
                    core::mem::forget(e);
                }
            }
        }
        self.files += 1;
        Ok(())
    }
    fn visit_additional_metadata(&mut self, metadata: &ZipStreamFileMetadata) -> ZipResult<()> {
        if self.metas < 2 {
            self.mname[self.metas] = metadata.name_raw()[0];
            self.mmode[self.metas] = metadata.unix_mode();
        }
        self.metas += 1;
        Ok(())
    }
}

/// C10 visitor API: over a two-entry archive from the independent builder (symbolic header
/// values), visit() calls visit_file once per entry in order (content readable inside the
/// callback), then visit_additional_metadata once per entry, in order, with the central
/// directory's values (name, Unix mode from made-by/external attributes), and returns Ok.
// @h prop=C10 tier=dev t=1500 mem=8
#[kani::proof]
#[kani::unwind(8)]
#[kani::stub(crc32fast::Hasher::internal_new_specialized, crate::verif_kit::stub_crc_specialized)]
fn c10_visit_delivers_files_then_metadata() {
    const N: usize = 192;
    let pay1: [u8; 1] = kani::any();
    let pay2: [u8; 1] = kani::any();
    let bt = build2::<N, 1, 1>(&pay1, &pay2);
    let src = Src::<N>::new(bt.b, bt.len);
    let mut v = RecV { files: 0, metas: 0, meta_before_files_done: false, fname: [0; 2], mname: [0; 2], mmode: [None; 2], fbyte: [0; 2] };
    match ZipStreamReader::new(src).visit(&mut v) {
        Ok(()) => {}
        Err(e) => {
            core::mem::forget(e);
            assert!(false, "visit failed on a well-formed archive");
        }
    }
    assert_eq!(v.files, 2);
    assert!(!v.meta_before_files_done);
    assert_eq!(v.fname[0], bt.name[0][0]);
    assert_eq!(v.fname[1], bt.name[1][0]);
    assert_eq!(v.fbyte[0], pay1[0]);
    assert_eq!(v.fbyte[1], pay2[0]);
    assert_eq!(v.metas, 2, "central-directory metadata not delivered once per entry");
    assert_eq!(v.mname[0], bt.name[0][0]);
    assert_eq!(v.mname[1], bt.name[1][0]);
    assert_eq!(v.mmode[0], s_ref_unix_mode(bt.v[0].made_by, bt.v[0].eattr));
    assert_eq!(v.mmode[1], s_ref_unix_mode(bt.v[1].made_by, bt.v[1].eattr));
    kani::cover!(v.mmode[0].is_some() && v.mmode[1].is_none());
}

/// C10 entries the stream cannot support produce an error, not data: a local header with the
/// encryption bit or the data-descriptor bit set (all other header values symbolic) is refused.
// @h prop=C10,C05 tier=quick t=300 mem=4
#[kani::proof]
#[kani::unwind(8)]
#[kani::stub(crc32fast::Hasher::internal_new_specialized, crate::verif_kit::stub_crc_specialized)]
fn c10_stream_refuses_encrypted_and_dd() {
    const N: usize = 64;
    let mut b = [0u8; N];
    let v = EntryVals::any();
    kani::assume(v.flags & (1 | (1 << 3)) != 0);
    let name: [u8; 1] = kani::any();
    let pay: [u8; 2] = kani::any();
    let p = put_local(&mut b, 0, &v, v.crc, 2, 2, &name, &[]);
    b[p] = pay[0];
    b[p + 1] = pay[1];
    put32(&mut b, p + 2, SIG_CENTRAL);
    let mut src = Src::<N>::new(b, p + 6);
    match read_zipfile_from_stream(&mut src) {
        Ok(Some(f)) => {
            core::mem::forget(f);
            assert!(false, "encrypted / data-descriptor entry handed out by the streaming reader");
        }
        Ok(None) => assert!(false, "local header taken for the central directory"),
        Err(e) => {
            core::mem::forget(e);
            kani::cover!(v.flags & 1 != 0);
            kani::cover!(v.flags & (1 << 3) != 0 && v.flags & 1 == 0);
        }
    };
}

/// C05(4) streaming reader over a hostile local header: every value of every fixed field
/// (version, flags, method incl. 99 and unknown numbers, time, CRC, 32-bit sizes), name and
/// extra lengths 0..=2 with arbitrary bytes (so ZIP64/AES/unknown extra records too short to
/// hold their bodies), arbitrary following bytes: value or error, one read, then release -
/// never a panic, overflow or unbounded loop.
// @h prop=C05,C10 tier=dev feat=base,aes t=1500 mem=8
#[kani::proof]
#[kani::unwind(8)]
#[kani::stub(crc32fast::Hasher::internal_new_specialized, crate::verif_kit::stub_crc_specialized)]
fn c05_stream_hostile_header() {
    const N: usize = 48;
    let mut b: [u8; N] = kani::any();
    put32(&mut b, 0, SIG_LOCAL);
    let nl: u16 = kani::any();
    let xl: u16 = kani::any();
    kani::assume(nl <= 2 && xl <= 2);
    put16(&mut b, 26, nl);
    put16(&mut b, 28, xl);
    let len: usize = kani::any();
    kani::assume(len <= N);
    let mut src = Src::<N>::new(b, len);
    match read_zipfile_from_stream(&mut src) {
        Ok(Some(mut f)) => {
            let mut one = [0u8; 1];
            let r = f.read(&mut one);
            kani::cover!(r.is_ok());
            core::mem::forget(r);
            // Drop drains the rest of the entry
        }
        Ok(None) => assert!(false),
        Err(e) => {
            kani::cover!(len < 30);
            kani::cover!(len == N);
            core::mem::forget(e);
        }
    };
}

/// C05 streaming reader over a hostile local header carrying a complete 11-byte extra record
/// (arbitrary id incl. ZIP64 0x0001 and AES 0x9901, arbitrary body) and any method number.
// @h prop=C05,C10,C16 tier=dev feat=base,aes t=1800 mem=10
#[kani::proof]
#[kani::unwind(14)]
#[kani::stub(crc32fast::Hasher::internal_new_specialized, crate::verif_kit::stub_crc_specialized)]
fn c05_stream_hostile_extra11() {
    const N: usize = 48;
    let mut b: [u8; N] = kani::any();
    put32(&mut b, 0, SIG_LOCAL);
    put16(&mut b, 26, 1);
    put16(&mut b, 28, 11);
    let mut src = Src::<N>::new(b, N);
    match read_zipfile_from_stream(&mut src) {
        Ok(Some(mut f)) => {
            let mut one = [0u8; 1];
            let r = f.read(&mut one);
            kani::cover!(r.is_ok());
            core::mem::forget(r);
        }
        Ok(None) => assert!(false),
        Err(e) => {
            kani::cover!(le16(&b, 31) == 0x9901);
            core::mem::forget(e);
        }
    };
}
