// harness
