// Harnesses for src/aes_ctr.rs: the WinZip AES-CTR key stream (C16 e, C09).
#[allow(unused_imports)]
use crate::verif_kit::*;

const KEY128: [u8; 16] = [0x2b, 0x7e, 0x15, 0x16, 0x28, 0xae, 0xd2, 0xa6, 0xab, 0xf7, 0x15, 0x88, 0x09, 0xcf, 0x4f, 0x3c];

macro_rules! c16_aesctr {
    ($name:ident, $split:expr) => {
        #[kani::proof]
        #[kani::unwind(20)]
        #[kani::stub(core::arch::x86_64::__cpuid, crate::verif_kit::stub_cpuid)]
        #[kani::stub(core::arch::x86_64::__cpuid_count, crate::verif_kit::stub_cpuid_count)]
        fn $name() {
            const SPLIT: usize = $split;
            let data: [u8; 18] = kani::any();
            let mut a = data;
            let mut b = data;
            let mut ks1 = AesCtrZipKeyStream::<Aes128>::new(&KEY128);
            ks1.crypt_in_place(&mut a);
            let mut ks2 = AesCtrZipKeyStream::<Aes128>::new(&KEY128);
            {
                let (h, t) = b.split_at_mut(SPLIT);
                ks2.crypt_in_place(h);
                ks2.crypt_in_place(t);
            }
            let cipher = aes::Aes128::new(GenericArray::from_slice(&KEY128));
            let mut blk0 = [0u8; 16];
            blk0[0] = 1;
            cipher.encrypt_block(GenericArray::from_mut_slice(&mut blk0));
            let mut blk1 = [0u8; 16];
            blk1[0] = 2;
            cipher.encrypt_block(GenericArray::from_mut_slice(&mut blk1));
            let mut i = 0;
            while i < 18 {
                let ks = if i < 16 { blk0[i] } else { blk1[i - 16] };
                assert_eq!(a[i], data[i] ^ ks);
                assert_eq!(b[i], a[i]);
                i += 1;
            }
            kani::cover!(true);
        }
    };
}
/// C16(e)/C09 WinZip AES-CTR key stream, real AES-128 (portable software path), fixed FIPS-197
/// key, concrete counters: for every 18-byte input, decrypting in two calls split after 5 bytes
/// (the second call starts in the middle of a key-stream block) equals decrypting in one call,
/// and both equal data XOR AES_k(LE128(1 + i/16)) computed block by block with the `aes` crate
/// directly (little-endian counter starting at 1, key stream position carried across calls).
// @h prop=C16,C09 tier=dev feat=aes t=600 mem=10 name=c16_aesctr_split5
c16_aesctr!(c16_aesctr_split5, 5);
/// C16(e)/C09 as above, split exactly at the block boundary (16).
// @h prop=C16,C09 tier=dev feat=aes t=600 mem=10 name=c16_aesctr_split16
c16_aesctr!(c16_aesctr_split16, 16);
/// C16(e)/C09 as above, split after 17 bytes (second block in use) and an empty first call is
/// covered by split 0.
// @h prop=C16,C09 tier=dev feat=aes t=600 mem=10 name=c16_aesctr_split17
c16_aesctr!(c16_aesctr_split17, 17);
