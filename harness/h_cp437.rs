// Harnesses for src/cp437.rs: C19 (CP437 decoding against the table shipped in CPython).
#[allow(unused_imports)]
use crate::verif_kit::*;

use crate::verif_kit::REF_CP437; // generated at check time from CPython's cp437 codec

/// C19 every one of the 256 byte values decodes to the code point of the Unicode consortium
/// CP437 mapping as shipped in CPython (table regenerated from CPython at check time).
// @h prop=C19 tier=quick t=300 mem=4
#[kani::proof]
fn c19_to_char_matches_cpython_table() {
    let b: u8 = kani::any();
    let c = to_char(b);
    assert_eq!(c as u32, REF_CP437[b as usize]);
    kani::cover!(b == 0xff);
    kani::cover!(b == 0x80);
    kani::cover!(b < 0x80);
}

fn expect_utf8(bytes: &[u8], n: usize, out: &mut [u8; 12]) -> usize {
    let mut len = 0;
    let mut i = 0;
    while i < n {
        let cp = REF_CP437[bytes[i] as usize];
        // independent UTF-8 encoder (code points here are < 0x10000)
        if cp < 0x80 {
            out[len] = cp as u8;
            len += 1;
        } else if cp < 0x800 {
            out[len] = 0xC0 | (cp >> 6) as u8;
            out[len + 1] = 0x80 | (cp & 0x3f) as u8;
            len += 2;
        } else {
            out[len] = 0xE0 | (cp >> 12) as u8;
            out[len + 1] = 0x80 | ((cp >> 6) & 0x3f) as u8;
            out[len + 2] = 0x80 | (cp & 0x3f) as u8;
            len += 3;
        }
        i += 1;
    }
    len
}

macro_rules! c19_vec {
    ($name:ident, $n:expr, $unwind:expr) => {
        #[kani::proof]
        #[kani::unwind($unwind)]
        fn $name() {
            const N: usize = $n;
            let raw: [u8; N] = kani::any();
            let mut want = [0u8; 12];
            let wl = expect_utf8(&raw, N, &mut want);
            let v: Vec<u8> = raw.to_vec();
            let s: String = v.from_cp437();
            let sb = s.as_bytes();
            assert_eq!(sb.len(), wl);
            let mut i = 0;
            while i < wl {
                assert_eq!(sb[i], want[i]);
                i += 1;
            }
            // borrowed-slice implementation agrees
            let c = (&raw[..]).from_cp437();
            let cb = c.as_bytes();
            assert_eq!(cb.len(), wl);
            let mut i = 0;
            while i < wl {
                assert_eq!(cb[i], want[i]);
                i += 1;
            }
            kani::cover!(wl == N);
            kani::cover!(wl == 3 * N);
            core::mem::forget(s);
            core::mem::forget(c);
        }
    };
}
/// C19 FromCp437 for Vec<u8> and &[u8]: for every 1-byte string the result is the UTF-8
/// encoding (independent encoder) of the CPython-table code points, in order.
// @h prop=C19 tier=quick t=300 mem=4 name=c19_from_cp437_len1
c19_vec!(c19_from_cp437_len1, 1, 5);
/// C19 FromCp437, every 2-byte string.
// @h prop=C19 tier=quick t=540 mem=6 name=c19_from_cp437_len2
c19_vec!(c19_from_cp437_len2, 2, 8);
/// C19 FromCp437, every 3-byte string.
// @h prop=C19 tier=thorough t=1800 mem=16 name=c19_from_cp437_len3
c19_vec!(c19_from_cp437_len3, 3, 11);
