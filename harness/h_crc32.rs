// Harnesses for src/crc32.rs: C04 (CRC gate) and C09 (chunk independence of the gate).
#[allow(unused_imports)]
use crate::verif_kit::*;

fn crc_stub_marker() {}

macro_rules! c04_gate {
    ($name:ident, $total:expr, $calls:expr, $unwind:expr) => {
        #[kani::proof]
        #[kani::unwind($unwind)]
        #[kani::stub(crc32fast::Hasher::internal_new_specialized, crate::verif_kit::stub_crc_specialized)]
        fn $name() {
            const TOTAL: usize = $total;
            let data: [u8; 4] = kani::any();
            let sched: u64 = kani::any();
            let check: u32 = kani::any();
            let ae2: bool = kani::any();
            let inner = EnvReader::<4> { data, total: TOTAL, pos: 0, env: Env::short(sched) };
            let mut rd = Crc32Reader::new(inner, check, ae2);
            let mut got = [0u8; 4];
            let mut n = 0usize;
            let mut eof_ok = false;
            let mut errored = false;
            let mut call = 0;
            while call < $calls {
                let zero_len: bool = kani::any();
                let mut b1 = [0u8; 1];
                if zero_len {
                    // a zero-length read never errors and never consumes
                    let before = rd.inner.pos;
                    match rd.read(&mut b1[..0]) {
                        Ok(m) => assert_eq!(m, 0),
                        Err(e) => {
                            core::mem::forget(e);
                            assert!(false, "zero-length read errored");
                        }
                    }
                    assert_eq!(rd.inner.pos, before);
                } else {
                    match rd.read(&mut b1) {
                        Ok(0) => {
                            // end of stream reported successfully
                            assert!(!errored);
                            assert_eq!(n, TOTAL);
                            eof_ok = true;
                        }
                        Ok(m) => {
                            assert_eq!(m, 1);
                            assert!(!eof_ok, "data after a successful EOF");
                            assert!(n < 4);
                            got[n] = b1[0];
                            n += 1;
                        }
                        Err(e) => {
                            core::mem::forget(e);
                            errored = true;
                            // the only error the gate itself raises is at EOF with a bad checksum
                            assert_eq!(n, TOTAL);
                            assert!(!ae2);
                            assert!(ref_crc32(&got, n) != check);
                        }
                    }
                }
                call += 1;
            }
            // bytes are passed through unchanged, in order
            let mut i = 0;
            while i < n {
                assert_eq!(got[i], data[i]);
                i += 1;
            }
            if eof_ok {
                // THE property: a read that completed returned data whose CRC matches (AE-2 exempt)
                assert!(ae2 || ref_crc32(&got, n) == check);
            }
            kani::cover!(eof_ok && !ae2);
            kani::cover!(eof_ok && ae2 && ref_crc32(&got, n) != check);
            kani::cover!(errored);
            core::mem::forget(rd);
        }
    };
}

/// C04 CRC gate over a pure-environment inner reader (arbitrary bytes, arbitrary short reads):
/// if a non-empty read returns Ok(0) then every byte was delivered unchanged, no earlier call
/// failed and (AE-2 or bitwise-reference CRC-32 of the returned bytes == declared checksum);
/// an error from the gate happens only at EOF, only when not AE-2 and only when the checksum
/// really differs; zero-length reads never consume or fail; after EOF reads keep returning 0.
/// Variant: empty stream, 3 caller reads.
// @h prop=C04,C09 tier=quick t=300 mem=4 name=c04_gate_len0
c04_gate!(c04_gate_len0, 0, 3, 4);
/// C04 CRC gate, 1-byte stream, 4 caller reads (1-byte buffers, zero-length reads interleaved).
// @h prop=C04,C09 tier=quick t=300 mem=4 name=c04_gate_len1
c04_gate!(c04_gate_len1, 1, 4, 5);
/// C04 CRC gate, 2-byte stream, 5 caller reads.
// @h prop=C04,C09 tier=quick t=480 mem=4 name=c04_gate_len2
c04_gate!(c04_gate_len2, 2, 5, 6);
/// C04 CRC gate, 3-byte stream, 6 caller reads.
// @h prop=C04,C09 tier=thorough t=1800 mem=16 name=c04_gate_len3
c04_gate!(c04_gate_len3, 3, 6, 7);
