// Harnesses for src/write.rs: record serialisation (C02, C08), extra-data validation and
// alignment (C17), writer state machine (C12), API-level write->read (C01), append (C13),
// raw copy (C14), fault injection (C11).
#[allow(unused_imports)]
use crate::verif_kit::*;
#[allow(unused_imports)]
use std::io::{Read, Seek, SeekFrom, Write};

const THR: u64 = 0xFFFF_FFFF;

// =============================================================================================
// Unit level: one record at a time, judged by an APPNOTE-offset reference ("strict reader")
// =============================================================================================

fn name_is_ascii(b: &[u8]) -> bool {
    let mut i = 0;
    while i < b.len() {
        if b[i] >= 0x80 {
            return false;
        }
        i += 1;
    }
    true
}

macro_rules! c02_local_header {
    ($name:ident, $mk:expr, $nlen:expr) => {
        #[kani::proof]
        #[kani::unwind(10)]
        fn $name() {
            const NLEN: usize = $nlen;
            let file = any_zfd($mk, Vec::new());
            let mut sink = Sink::<64>::new();
            let r = write_local_file_header(&mut sink, &file);
            assert!(r.is_ok());
            assert!(!sink.overflow);
            let b = &sink.buf;
            let nb = file.file_name.as_bytes();
            assert_eq!(nb.len(), NLEN);
            assert_eq!(le32(b, 0), SIG_LOCAL);
            let flags = le16(b, 6);
            assert_eq!(flags & (1 << 11) != 0, !name_is_ascii(nb));
            assert_eq!(flags & 1 != 0, file.encrypted);
            assert_eq!(flags & !((1 << 11) | 1), 0);
            #[allow(deprecated)]
            let m = file.compression_method.to_u16();
            assert_eq!(le16(b, 8), m);
            assert_eq!(le16(b, 10), file.last_modified_time.timepart());
            assert_eq!(le16(b, 12), file.last_modified_time.datepart());
            assert_eq!(le32(b, 14), file.crc32);
            assert_eq!(le16(b, 26) as usize, NLEN);
            let mut i = 0;
            while i < NLEN {
                assert_eq!(b[30 + i], nb[i]);
                i += 1;
            }
            if file.large_file {
                // ZIP64: 32-bit fields carry the sentinel, the ZIP64 record carries both sizes,
                // original size first (APPNOTE 4.5.3)
                assert_eq!(le32(b, 18), 0xFFFF_FFFF);
                assert_eq!(le32(b, 22), 0xFFFF_FFFF);
                assert_eq!(le16(b, 28), 20);
                let e = 30 + NLEN;
                assert_eq!(le16(b, e), 0x0001);
                assert_eq!(le16(b, e + 2), 16);
                assert_eq!(le64(b, e + 4), file.uncompressed_size);
                assert_eq!(le64(b, e + 12), file.compressed_size);
                assert_eq!(sink.end, 30 + NLEN + 20);
                assert!(le16(b, 4) >= 45 || !(file.uncompressed_size > THR || file.compressed_size > THR));
            } else {
                assert_eq!(le32(b, 18), file.compressed_size as u32);
                assert_eq!(le32(b, 22), file.uncompressed_size as u32);
                assert_eq!(le16(b, 28), 0);
                assert_eq!(sink.end, 30 + NLEN);
            }
            kani::cover!(file.large_file && file.uncompressed_size > THR);
            kani::cover!(!file.large_file && (NLEN == 1 || flags & (1 << 11) != 0));
            kani::cover!(!file.large_file && flags & (1 << 11) == 0);
            core::mem::forget(r);
            core::mem::forget(file);
        }
    };
}
/// C02 local file header layout (APPNOTE 4.3.7) for every value of every scalar field
/// (flags, method incl. undecodable numbers, DOS time/date, CRC, 64-bit sizes, large_file) and a
/// symbolic 1-byte ASCII name: signature, flag bit 11 <=> non-ASCII name, bit 0 <=> encrypted,
/// lengths, name bytes; with large_file the sentinels and the 20-byte ZIP64 record in APPNOTE
/// order.
// @h prop=C02,C08,C19 tier=quick t=600 mem=8 name=c02_local_header_name1
c02_local_header!(c02_local_header_name1, ascii1(), 1);
/// C02 local header, 2-byte names (two ASCII bytes or one two-byte UTF-8 scalar: UTF-8 flag).
// @h prop=C02,C08,C19 tier=quick t=600 mem=8 name=c02_local_header_name2
c02_local_header!(c02_local_header_name2, name2(), 2);

/// Reference decoding of the central ZIP64 extended-information record the way APPNOTE 4.5.3
/// readers (and CPython's zipfile) do it: when a 0x0001 record is present, each 32-bit field
/// that holds the sentinel 0xFFFFFFFF takes its value from the record, in the fixed order
/// original size, compressed size, header offset; without a record the 32-bit fields stand.
/// Returns None when a record is present but too short for the sentinels present.
fn strict_zip64_decode(b: &[u8], extra_at: usize, extra_len: usize, u32s: (u32, u32, u32)) -> Option<(u64, u64, u64, usize)> {
    let (mut usz, mut csz, mut off) = (u32s.0 as u64, u32s.1 as u64, u32s.2 as u64);
    if extra_len < 4 || le16(b, extra_at) != 0x0001 {
        return Some((usz, csz, off, 0));
    }
    let reclen = le16(b, extra_at + 2) as usize;
    if 4 + reclen > extra_len {
        return None;
    }
    let need = (u32s.0 == 0xFFFF_FFFF) as usize * 8 + (u32s.1 == 0xFFFF_FFFF) as usize * 8 + (u32s.2 == 0xFFFF_FFFF) as usize * 8;
    if reclen < need {
        return None;
    }
    let mut p = extra_at + 4;
    if u32s.0 == 0xFFFF_FFFF {
        usz = le64(b, p);
        p += 8;
    }
    if u32s.1 == 0xFFFF_FFFF {
        csz = le64(b, p);
        p += 8;
    }
    if u32s.2 == 0xFFFF_FFFF {
        off = le64(b, p);
    }
    Some((usz, csz, off, 4 + reclen))
}

macro_rules! c02_central_header {
    ($name:ident, $mk:expr, $nlen:expr, $xlen:expr) => {
        #[kani::proof]
        #[kani::unwind(30)]
        fn $name() {
            const NLEN: usize = $nlen;
            const XLEN: usize = $xlen;
            let xb: [u8; XLEN] = kani::any();
            let file = any_zfd($mk, xb.to_vec());
            let mut sink = Sink::<96>::new();
            let r = write_central_directory_header(&mut sink, &file);
            assert!(r.is_ok());
            assert!(!sink.overflow);
            let b = &sink.buf;
            let nb = file.file_name.as_bytes();
            assert_eq!(le32(b, 0), SIG_CENTRAL);
            // version made by: upper byte = host system, lower = spec version
            assert_eq!(le16(b, 4), ((file.system as u16) << 8) | file.version_made_by as u16);
            let flags = le16(b, 8);
            assert_eq!(flags & (1 << 11) != 0, !name_is_ascii(nb));
            assert_eq!(flags & 1 != 0, file.encrypted);
            assert_eq!(flags & !((1 << 11) | 1), 0);
            #[allow(deprecated)]
            let m = file.compression_method.to_u16();
            assert_eq!(le16(b, 10), m);
            assert_eq!(le16(b, 12), file.last_modified_time.timepart());
            assert_eq!(le16(b, 14), file.last_modified_time.datepart());
            assert_eq!(le32(b, 16), file.crc32);
            assert_eq!(le16(b, 28) as usize, NLEN);
            let elen = le16(b, 30) as usize;
            assert_eq!(le16(b, 32), 0); // comment length
            assert_eq!(le16(b, 34), 0); // disk number start
            assert_eq!(le32(b, 38), file.external_attributes);
            let mut i = 0;
            while i < NLEN {
                assert_eq!(b[46 + i], nb[i]);
                i += 1;
            }
            assert_eq!(sink.end, 46 + NLEN + elen);
            // ZIP64: a strict reader must recover every value exactly
            let f = (le32(b, 24), le32(b, 20), le32(b, 42));
            let dec = strict_zip64_decode(b, 46 + NLEN, elen, f);
            assert!(dec.is_some(), "a 32-bit field holds the ZIP64 sentinel but the ZIP64 record present does not carry its value");
            let (usz, csz, off, z64len) = dec.unwrap();
            assert_eq!(usz, file.uncompressed_size);
            assert_eq!(csz, file.compressed_size);
            assert_eq!(off, file.header_start);
            // the caller's extra data follows the ZIP64 record verbatim
            assert_eq!(elen, z64len + XLEN);
            let mut i = 0;
            while i < XLEN {
                assert_eq!(b[46 + NLEN + z64len + i], xb[i]);
                i += 1;
            }
            // version needed >= 4.5 whenever a ZIP64 value is present
            if file.uncompressed_size > THR || file.compressed_size > THR || file.header_start > THR {
                assert!(le16(b, 6) >= 45);
            }
            kani::cover!(z64len == 28);
            kani::cover!(z64len == 12);
            kani::cover!(z64len == 0);
            kani::cover!(file.compressed_size == THR);
            core::mem::forget(r);
            core::mem::forget(file);
        }
    };
}
/// C02/C08 central directory header (APPNOTE 4.3.12) for every value of every scalar field:
/// fixed fields at their offsets; a strict reader (value taken from the ZIP64 record iff the
/// 32-bit field is 0xFFFFFFFF, APPNOTE order) recovers uncompressed size, compressed size and
/// local-header offset EXACTLY for all 2^192 combinations, including 0xFFFFFFFE/FF/1_0000_0000;
/// version needed >= 45 with ZIP64 values. 1-byte name, no caller extra data.
// @h prop=C02,C08,C19 tier=quick t=900 mem=10 name=c02_central_header_n1_x0
c02_central_header!(c02_central_header_n1_x0, ascii1(), 1, 0);
/// C02/C08/C17 central header with a 2-byte name and 4 bytes of caller extra data (stored
/// verbatim after the ZIP64 record).
// @h prop=C02,C08,C17,C19 tier=quick t=900 mem=10 name=c02_central_header_n2_x4
c02_central_header!(c02_central_header_n2_x4, name2(), 2, 4);

// =============================================================================================
// API level: ZipWriter<Sink> driven through its public interface
// =============================================================================================

fn opts(perm: u32, dt: DateTime, large: bool) -> FileOptions {
    FileOptions::default()
        .compression_method(CompressionMethod::Stored)
        .last_modified_time(dt)
        .unix_permissions(perm)
        .large_file(large)
}

/// Judge one finished single-entry archive in `b[..end]` against APPNOTE offsets.
/// Layout expected: local header (30 + nlen [+20]) | data | central (46 + nlen) | EOCD (22 + clen).
#[allow(clippy::too_many_arguments)]
fn judge_single(
    b: &[u8],
    end: usize,
    name: &[u8],
    content: &[u8],
    clen: usize,
    large: bool,
    date: u16,
    time: u16,
    mode: u32,
) {
    let nlen = name.len();
    let dlen = content.len();
    let lx = if large { 20 } else { 0 };
    let data_at = 30 + nlen + lx;
    let cd_at = data_at + dlen;
    let eocd_at = cd_at + 46 + nlen;
    assert_eq!(end, eocd_at + 22 + clen);
    let crc = ref_crc32(content, dlen);
    // local header
    assert_eq!(le32(b, 0), SIG_LOCAL);
    assert_eq!(le16(b, 8), 0); // stored
    assert_eq!(le16(b, 10), time);
    assert_eq!(le16(b, 12), date);
    assert_eq!(le32(b, 14), crc);
    if large {
        assert_eq!(le32(b, 18), 0xFFFF_FFFF);
        assert_eq!(le32(b, 22), 0xFFFF_FFFF);
        assert_eq!(le16(b, 30 + nlen), 1);
        assert_eq!(le16(b, 32 + nlen), 16);
        assert_eq!(le64(b, 34 + nlen), dlen as u64);
        assert_eq!(le64(b, 42 + nlen), dlen as u64);
    } else {
        assert_eq!(le32(b, 18), dlen as u32);
        assert_eq!(le32(b, 22), dlen as u32);
    }
    assert_eq!(le16(b, 26) as usize, nlen);
    assert_eq!(le16(b, 28) as usize, lx);
    let mut i = 0;
    while i < nlen {
        assert_eq!(b[30 + i], name[i]);
        assert_eq!(b[cd_at + 46 + i], name[i]);
        i += 1;
    }
    let mut i = 0;
    while i < dlen {
        assert_eq!(b[data_at + i], content[i]);
        i += 1;
    }
    // central header agrees with local header
    assert_eq!(le32(b, cd_at), SIG_CENTRAL);
    assert_eq!(le16(b, cd_at + 4) >> 8, 3); // unix
    assert_eq!(le16(b, cd_at + 8), le16(b, 6)); // flags
    assert_eq!(le16(b, cd_at + 10), 0);
    assert_eq!(le16(b, cd_at + 12), time);
    assert_eq!(le16(b, cd_at + 14), date);
    assert_eq!(le32(b, cd_at + 16), crc);
    assert_eq!(le32(b, cd_at + 20), dlen as u32);
    assert_eq!(le32(b, cd_at + 24), dlen as u32);
    assert_eq!(le16(b, cd_at + 28) as usize, nlen);
    assert_eq!(le16(b, cd_at + 30), 0);
    assert_eq!(le16(b, cd_at + 32), 0);
    assert_eq!(le32(b, cd_at + 38) >> 16, mode);
    assert_eq!(le32(b, cd_at + 42), 0); // offset of local header
    // end of central directory
    assert_eq!(le32(b, eocd_at), SIG_EOCD);
    assert_eq!(le16(b, eocd_at + 4), 0);
    assert_eq!(le16(b, eocd_at + 6), 0);
    assert_eq!(le16(b, eocd_at + 8), 1);
    assert_eq!(le16(b, eocd_at + 10), 1);
    assert_eq!(le32(b, eocd_at + 12) as usize, 46 + nlen);
    assert_eq!(le32(b, eocd_at + 16) as usize, cd_at);
    assert_eq!(le16(b, eocd_at + 20) as usize, clen);
}

macro_rules! c01_write_file {
    ($name:ident, $dlen:expr, $split:expr, $clen:expr, $large:expr, $unwind:expr) => {
        #[kani::proof]
        #[kani::unwind($unwind)]
        #[kani::stub(time::OffsetDateTime::now_utc, crate::verif_kit::stub_now_utc)]
        #[kani::stub(crc32fast::Hasher::internal_new_specialized, crate::verif_kit::stub_crc_specialized)]
        fn $name() {
            const DLEN: usize = $dlen;
            const SPLIT: usize = $split;
            const CLEN: usize = $clen;
            let content: [u8; DLEN] = kani::any();
            let comment: [u8; CLEN] = kani::any();
            let date: u16 = kani::any();
            let time: u16 = kani::any();
            let perm: u32 = kani::any();
            let large: bool = $large; // layout (hence every offset) is concrete per variant
            let nm = ascii1();
            let nb = [nm.as_bytes()[0]];
            let mut sink = Sink::<128>::new();
            let mut w = ZipWriter::new(sink.handle());
            w.set_raw_comment(comment.to_vec());
            match w.start_file(nm, opts(perm, DateTime::from_msdos(date, time), large)) {
                Ok(()) => {}
                Err(e) => {
                    core::mem::forget(e);
                    assert!(false, "start_file failed");
                }
            }
            // caller-side split of the payload (C09 writer half)
            match w.write_all(&content[..SPLIT]) {
                Ok(()) => {}
                Err(e) => {
                    core::mem::forget(e);
                    assert!(false, "write failed");
                }
            }
            match w.write_all(&content[SPLIT..]) {
                Ok(()) => {}
                Err(e) => {
                    core::mem::forget(e);
                    assert!(false, "write failed");
                }
            }
            match w.finish() {
                Ok(_) => {}
                Err(e) => {
                    core::mem::forget(e);
                    assert!(false, "finish failed");
                    return;
                }
            };
            core::mem::forget(w);
            assert!(!sink.overflow);
            judge_single(&sink.buf, sink.end, &nb, &content, CLEN, large, date, time, 0o100000 | (perm & 0o777));
            kani::cover!(sink.end > 0);
        }
    };
}
/// C01/C02/C09 public API: new, set_raw_comment, start_file (symbolic ASCII 1-byte name, any DOS
/// date/time words, any permission word, large_file flag), write_all of a 2-byte symbolic
/// payload in two calls (1+1), finish; the produced bytes are judged by the APPNOTE offset
/// reference: local header == central header (name, flags, method, time, CRC = bitwise
/// reference CRC of the payload, sizes), data in place, offsets/sizes/counts exact, ZIP64 local
/// record when large_file, mode = S_IFREG | perm&0o777, comment stored. 1-byte comment.
// @h prop=C01,C02,C09,C18 tier=quick t=1200 mem=16 name=c01_write_file_d2_c1
c01_write_file!(c01_write_file_d2_c1, 2, 1, 1, false, 10);
/// C01/C02/C08 as above with large_file(true): 20-byte local ZIP64 record, back-patched sizes.
// @h prop=C01,C02,C08,C18 tier=quick t=1200 mem=16 name=c01_write_file_d2_c1_large
c01_write_file!(c01_write_file_d2_c1_large, 2, 1, 1, true, 10);
