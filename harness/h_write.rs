// Harnesses for src/write.rs: record serialisation (C02, C08), extra-data validation and
// alignment (C17), writer state machine (C12), API-level write->read (C01), append (C13),
// raw copy (C14), fault injection (C11).
#[allow(unused_imports)]
use crate::verif_kit::*;
#[allow(unused_imports)]
use std::io::{Read, Seek, SeekFrom, Write};

const THR: u64 = 0xFFFF_FFFF;

// =============================================================================================
// Unit level: one record at a time, judged by an APPNOTE-offset reference ("strict reader")
// =============================================================================================

fn name_is_ascii(b: &[u8]) -> bool {
    let mut i = 0;
    while i < b.len() {
        if b[i] >= 0x80 {
            return false;
        }
        i += 1;
    }
    true
}

macro_rules! c02_local_header {
    ($name:ident, $mk:expr, $nlen:expr) => {
        #[kani::proof]
        #[kani::unwind(10)]
        fn $name() {
            const NLEN: usize = $nlen;
            let file = any_zfd($mk, Vec::new());
            let mut sink = Sink::<64>::new();
            let r = write_local_file_header(&mut sink, &file);
            assert!(r.is_ok());
            assert!(!sink.overflow);
            let b = &sink.buf;
            let nb = file.file_name.as_bytes();
            assert_eq!(nb.len(), NLEN);
            assert_eq!(le32(b, 0), SIG_LOCAL);
            let flags = le16(b, 6);
            assert_eq!(flags & (1 << 11) != 0, !name_is_ascii(nb));
            assert_eq!(flags & 1 != 0, file.encrypted);
            assert_eq!(flags & !((1 << 11) | 1), 0);
            #[allow(deprecated)]
            let m = file.compression_method.to_u16();
            assert_eq!(le16(b, 8), m);
            assert_eq!(le16(b, 10), file.last_modified_time.timepart());
            assert_eq!(le16(b, 12), file.last_modified_time.datepart());
            assert_eq!(le32(b, 14), file.crc32);
            assert_eq!(le16(b, 26) as usize, NLEN);
            let mut i = 0;
            while i < NLEN {
                assert_eq!(b[30 + i], nb[i]);
                i += 1;
            }
            if file.large_file {
                // ZIP64: 32-bit fields carry the sentinel, the ZIP64 record carries both sizes,
                // original size first (APPNOTE 4.5.3)
                assert_eq!(le32(b, 18), 0xFFFF_FFFF);
                assert_eq!(le32(b, 22), 0xFFFF_FFFF);
                assert_eq!(le16(b, 28), 20);
                let e = 30 + NLEN;
                assert_eq!(le16(b, e), 0x0001);
                assert_eq!(le16(b, e + 2), 16);
                assert_eq!(le64(b, e + 4), file.uncompressed_size);
                assert_eq!(le64(b, e + 12), file.compressed_size);
                assert_eq!(sink.end, 30 + NLEN + 20);
                assert!(le16(b, 4) >= 45 || !(file.uncompressed_size > THR || file.compressed_size > THR));
            } else {
                assert_eq!(le32(b, 18), file.compressed_size as u32);
                assert_eq!(le32(b, 22), file.uncompressed_size as u32);
                assert_eq!(le16(b, 28), 0);
                assert_eq!(sink.end, 30 + NLEN);
            }
            kani::cover!(file.large_file && file.uncompressed_size > THR);
            kani::cover!(!file.large_file && (NLEN == 1 || flags & (1 << 11) != 0));
            kani::cover!(!file.large_file && flags & (1 << 11) == 0);
            core::mem::forget(r);
            core::mem::forget(file);
        }
    };
}
/// C02 local file header layout (APPNOTE 4.3.7) for every value of every scalar field
/// (flags, method incl. undecodable numbers, DOS time/date, CRC, 64-bit sizes, large_file) and a
/// symbolic 1-byte ASCII name: signature, flag bit 11 <=> non-ASCII name, bit 0 <=> encrypted,
/// lengths, name bytes; with large_file the sentinels and the 20-byte ZIP64 record in APPNOTE
/// order.
// @h prop=C02,C08,C19 tier=quick t=300 mem=4 name=c02_local_header_name1
c02_local_header!(c02_local_header_name1, ascii1(), 1);
/// C02 local header, 2-byte names (two ASCII bytes or one two-byte UTF-8 scalar: UTF-8 flag).
// @h prop=C02,C08,C19 tier=quick t=300 mem=4 name=c02_local_header_name2
c02_local_header!(c02_local_header_name2, name2(), 2);

/// Reference decoding of the central ZIP64 extended-information record the way APPNOTE 4.5.3
/// readers (and CPython's zipfile) do it: when a 0x0001 record is present, each 32-bit field
/// that holds the sentinel 0xFFFFFFFF takes its value from the record, in the fixed order
/// original size, compressed size, header offset; without a record the 32-bit fields stand.
/// Returns None when a record is present but too short for the sentinels present.
fn strict_zip64_decode(b: &[u8], extra_at: usize, extra_len: usize, u32s: (u32, u32, u32)) -> Option<(u64, u64, u64, usize)> {
    let (mut usz, mut csz, mut off) = (u32s.0 as u64, u32s.1 as u64, u32s.2 as u64);
    if extra_len < 4 || le16(b, extra_at) != 0x0001 {
        return Some((usz, csz, off, 0));
    }
    let reclen = le16(b, extra_at + 2) as usize;
    if 4 + reclen > extra_len {
        return None;
    }
    let need = (u32s.0 == 0xFFFF_FFFF) as usize * 8 + (u32s.1 == 0xFFFF_FFFF) as usize * 8 + (u32s.2 == 0xFFFF_FFFF) as usize * 8;
    if reclen < need {
        return None;
    }
    let mut p = extra_at + 4;
    if u32s.0 == 0xFFFF_FFFF {
        usz = le64(b, p);
        p += 8;
    }
    if u32s.1 == 0xFFFF_FFFF {
        csz = le64(b, p);
        p += 8;
    }
    if u32s.2 == 0xFFFF_FFFF {
        off = le64(b, p);
    }
    Some((usz, csz, off, 4 + reclen))
}

macro_rules! c02_central_header {
    ($name:ident, $mk:expr, $nlen:expr, $xlen:expr) => {
        #[kani::proof]
        #[kani::unwind(30)]
        fn $name() {
            const NLEN: usize = $nlen;
            const XLEN: usize = $xlen;
            let xb: [u8; XLEN] = kani::any();
            // caller extra data never carries the ZIP64 header ID (validate_extra_data refuses it)
            kani::assume(XLEN < 4 || le16(&xb, 0) != 0x0001);
            let file = any_zfd($mk, xb.to_vec());
            let mut sink = Sink::<96>::new();
            let r = write_central_directory_header(&mut sink, &file);
            assert!(r.is_ok());
            assert!(!sink.overflow);
            let b = &sink.buf;
            let nb = file.file_name.as_bytes();
            assert_eq!(le32(b, 0), SIG_CENTRAL);
            // version made by: upper byte = host system, lower = spec version
            assert_eq!(le16(b, 4), ((file.system as u16) << 8) | file.version_made_by as u16);
            let flags = le16(b, 8);
            assert_eq!(flags & (1 << 11) != 0, !name_is_ascii(nb));
            assert_eq!(flags & 1 != 0, file.encrypted);
            assert_eq!(flags & !((1 << 11) | 1), 0);
            #[allow(deprecated)]
            let m = file.compression_method.to_u16();
            assert_eq!(le16(b, 10), m);
            assert_eq!(le16(b, 12), file.last_modified_time.timepart());
            assert_eq!(le16(b, 14), file.last_modified_time.datepart());
            assert_eq!(le32(b, 16), file.crc32);
            assert_eq!(le16(b, 28) as usize, NLEN);
            let elen = le16(b, 30) as usize;
            assert_eq!(le16(b, 32), 0); // comment length
            assert_eq!(le16(b, 34), 0); // disk number start
            assert_eq!(le32(b, 38), file.external_attributes);
            let mut i = 0;
            while i < NLEN {
                assert_eq!(b[46 + i], nb[i]);
                i += 1;
            }
            assert_eq!(sink.end, 46 + NLEN + elen);
            // ZIP64: a strict reader must recover every value exactly
            let f = (le32(b, 24), le32(b, 20), le32(b, 42));
            let dec = strict_zip64_decode(b, 46 + NLEN, elen, f);
            assert!(dec.is_some(), "a 32-bit field holds the ZIP64 sentinel but the ZIP64 record present does not carry its value");
            let (usz, csz, off, z64len) = dec.unwrap();
            assert_eq!(usz, file.uncompressed_size);
            assert_eq!(csz, file.compressed_size);
            assert_eq!(off, file.header_start);
            // the caller's extra data follows the ZIP64 record verbatim
            assert_eq!(elen, z64len + XLEN);
            let mut i = 0;
            while i < XLEN {
                assert_eq!(b[46 + NLEN + z64len + i], xb[i]);
                i += 1;
            }
            // version needed >= 4.5 whenever a ZIP64 value is present
            if file.uncompressed_size > THR || file.compressed_size > THR || file.header_start > THR {
                assert!(le16(b, 6) >= 45);
            }
            kani::cover!(z64len == 28);
            kani::cover!(z64len == 12);
            kani::cover!(z64len == 0);
            kani::cover!(file.compressed_size == THR);
            core::mem::forget(r);
            core::mem::forget(file);
        }
    };
}
/// C02/C08 central directory header (APPNOTE 4.3.12) for every value of every scalar field:
/// fixed fields at their offsets; a strict reader (value taken from the ZIP64 record iff the
/// 32-bit field is 0xFFFFFFFF, APPNOTE order) recovers uncompressed size, compressed size and
/// local-header offset EXACTLY for all 2^192 combinations, including 0xFFFFFFFE/FF/1_0000_0000;
/// version needed >= 45 with ZIP64 values. 1-byte name, no caller extra data.
// @h prop=C02,C08,C19 tier=quick t=300 mem=4 name=c02_central_header_n1_x0
c02_central_header!(c02_central_header_n1_x0, ascii1(), 1, 0);
/// C02/C08/C17 central header with a 2-byte name and 4 bytes of caller extra data (stored
/// verbatim after the ZIP64 record).
// @h prop=C02,C08,C17,C19 tier=quick t=300 mem=4 name=c02_central_header_n2_x4
c02_central_header!(c02_central_header_n2_x4, name2(), 2, 4);

// =============================================================================================
// API level: ZipWriter<Sink> driven through its public interface
// =============================================================================================

fn opts(perm: u32, dt: DateTime, large: bool) -> FileOptions {
    FileOptions::default()
        .compression_method(CompressionMethod::Stored)
        .last_modified_time(dt)
        .unix_permissions(perm)
        .large_file(large)
}

/// Judge one finished single-entry archive in `b[..end]` against APPNOTE offsets.
/// Layout expected: local header (30 + nlen [+20]) | data | central (46 + nlen) | EOCD (22 + clen).
#[allow(clippy::too_many_arguments)]
fn judge_single(
    b: &[u8],
    end: usize,
    name: &[u8],
    content: &[u8],
    clen: usize,
    large: bool,
    date: u16,
    time: u16,
    mode: u32,
) {
    let nlen = name.len();
    let dlen = content.len();
    let lx = if large { 20 } else { 0 };
    let data_at = 30 + nlen + lx;
    let cd_at = data_at + dlen;
    let eocd_at = cd_at + 46 + nlen;
    assert_eq!(end, eocd_at + 22 + clen);
    let crc = ref_crc32(content, dlen);
    // local header
    assert_eq!(le32(b, 0), SIG_LOCAL);
    assert_eq!(le16(b, 8), 0); // stored
    assert_eq!(le16(b, 10), time);
    assert_eq!(le16(b, 12), date);
    assert_eq!(le32(b, 14), crc);
    if large {
        assert_eq!(le32(b, 18), 0xFFFF_FFFF);
        assert_eq!(le32(b, 22), 0xFFFF_FFFF);
        assert_eq!(le16(b, 30 + nlen), 1);
        assert_eq!(le16(b, 32 + nlen), 16);
        assert_eq!(le64(b, 34 + nlen), dlen as u64);
        assert_eq!(le64(b, 42 + nlen), dlen as u64);
    } else {
        assert_eq!(le32(b, 18), dlen as u32);
        assert_eq!(le32(b, 22), dlen as u32);
    }
    assert_eq!(le16(b, 26) as usize, nlen);
    assert_eq!(le16(b, 28) as usize, lx);
    let mut i = 0;
    while i < nlen {
        assert_eq!(b[30 + i], name[i]);
        assert_eq!(b[cd_at + 46 + i], name[i]);
        i += 1;
    }
    let mut i = 0;
    while i < dlen {
        assert_eq!(b[data_at + i], content[i]);
        i += 1;
    }
    // central header agrees with local header
    assert_eq!(le32(b, cd_at), SIG_CENTRAL);
    assert_eq!(le16(b, cd_at + 4) >> 8, 3); // unix
    assert_eq!(le16(b, cd_at + 8), le16(b, 6)); // flags
    assert_eq!(le16(b, cd_at + 10), 0);
    assert_eq!(le16(b, cd_at + 12), time);
    assert_eq!(le16(b, cd_at + 14), date);
    assert_eq!(le32(b, cd_at + 16), crc);
    assert_eq!(le32(b, cd_at + 20), dlen as u32);
    assert_eq!(le32(b, cd_at + 24), dlen as u32);
    assert_eq!(le16(b, cd_at + 28) as usize, nlen);
    assert_eq!(le16(b, cd_at + 30), 0);
    assert_eq!(le16(b, cd_at + 32), 0);
    assert_eq!(le32(b, cd_at + 38) >> 16, mode);
    assert_eq!(le32(b, cd_at + 42), 0); // offset of local header
    // end of central directory
    assert_eq!(le32(b, eocd_at), SIG_EOCD);
    assert_eq!(le16(b, eocd_at + 4), 0);
    assert_eq!(le16(b, eocd_at + 6), 0);
    assert_eq!(le16(b, eocd_at + 8), 1);
    assert_eq!(le16(b, eocd_at + 10), 1);
    assert_eq!(le32(b, eocd_at + 12) as usize, 46 + nlen);
    assert_eq!(le32(b, eocd_at + 16) as usize, cd_at);
    assert_eq!(le16(b, eocd_at + 20) as usize, clen);
}

macro_rules! c01_write_file {
    ($name:ident, $dlen:expr, $split:expr, $clen:expr, $large:expr, $unwind:expr) => {
        #[kani::proof]
        #[kani::unwind($unwind)]
        #[kani::stub(time::OffsetDateTime::now_utc, crate::verif_kit::stub_now_utc)]
        #[kani::stub(crc32fast::Hasher::internal_new_specialized, crate::verif_kit::stub_crc_specialized)]
        fn $name() {
            const DLEN: usize = $dlen;
            const SPLIT: usize = $split;
            const CLEN: usize = $clen;
            let content: [u8; DLEN] = kani::any();
            let comment: [u8; CLEN] = kani::any();
            let date: u16 = kani::any();
            let time: u16 = kani::any();
            let perm: u32 = kani::any();
            let large: bool = $large; // layout (hence every offset) is concrete per variant
            let nm = ascii1();
            let nb = [nm.as_bytes()[0]];
            let mut sink = Sink::<128>::new();
            let mut w = core::mem::ManuallyDrop::new(ZipWriter::new(sink.handle())); // never dropped: Drop would re-run finalize on every early-return path
            w.set_raw_comment(comment.to_vec());
            match w.start_file(nm, opts(perm, DateTime::from_msdos(date, time), large)) {
                Ok(()) => {}
                Err(e) => {
                    core::mem::forget(e);
                    assert!(false, "start_file failed");
                }
            }
            // caller-side split of the payload (C09 writer half)
            match w.write_all(&content[..SPLIT]) {
                Ok(()) => {}
                Err(e) => {
                    core::mem::forget(e);
                    assert!(false, "write failed");
                }
            }
            match w.write_all(&content[SPLIT..]) {
                Ok(()) => {}
                Err(e) => {
                    core::mem::forget(e);
                    assert!(false, "write failed");
                }
            }
            match w.finish() {
                Ok(_) => {}
                Err(e) => {
                    core::mem::forget(e);
                    assert!(false, "finish failed");
                    return;
                }
            };
                    assert!(!sink.overflow);
            judge_single(&sink.buf, sink.end, &nb, &content, CLEN, large, date, time, 0o100000 | (perm & 0o777));
            kani::cover!(sink.end > 0);
        }
    };
}
/// C01/C02/C09 public API: new, set_raw_comment, start_file (symbolic ASCII 1-byte name, any DOS
/// date/time words, any permission word, large_file flag), write_all of a 2-byte symbolic
/// payload in two calls (1+1), finish; the produced bytes are judged by the APPNOTE offset
/// reference: local header == central header (name, flags, method, time, CRC = bitwise
/// reference CRC of the payload, sizes), data in place, offsets/sizes/counts exact, ZIP64 local
/// record when large_file, mode = S_IFREG | perm&0o777, comment stored. 1-byte comment.
// @h prop=C01,C02,C09,C18 tier=quick t=300 mem=4 name=c01_write_file_d2_c1
c01_write_file!(c01_write_file_d2_c1, 2, 1, 1, false, 10);
/// C01/C02/C08 as above with large_file(true): 20-byte local ZIP64 record, back-patched sizes.
// @h prop=C01,C02,C08,C18 tier=quick t=360 mem=4 name=c01_write_file_d2_c1_large
c01_write_file!(c01_write_file_d2_c1_large, 2, 1, 1, true, 10);

// =============================================================================================
// Generic APPNOTE judge for small multi-entry archives produced by the writer
// =============================================================================================
pub(crate) struct Exp<'a> {
    pub name: &'a [u8],
    pub content: &'a [u8],
    pub local_extra: &'a [u8],
    pub central_extra: &'a [u8],
    pub large: bool,
    pub date: u16,
    pub time: u16,
    pub mode: u32,
    pub encrypted: bool,
    /// raw-copied entry: method number, CRC and uncompressed size are the source's declared
    /// values (not derived from `content`, which then is the compressed byte string)
    pub raw: Option<RawExp>,
}
#[derive(Clone, Copy)]
pub(crate) struct RawExp {
    pub method: u16,
    pub crc: u32,
    pub usize_: u32,
}

/// Judge `b[..end]`: entries laid out back to back from offset `start`, then the central
/// directory, then the end record with `comment`. For encrypted entries `content` is the stored
/// (encrypted) byte string and the CRC is not judged here.
pub(crate) fn judge_archive(b: &[u8], start: usize, end: usize, exp: &[Exp<'_>], comment: &[u8]) {
    let n = exp.len();
    let mut off = [0usize; 4];
    let mut p = start;
    let mut i = 0;
    while i < n {
        let e = &exp[i];
        off[i] = p;
        let nlen = e.name.len();
        let lx = if e.large { 20 } else { 0 };
        let dlen = e.content.len();
        assert_eq!(le32(b, p), SIG_LOCAL);
        let flags = le16(b, p + 6);
        assert_eq!(flags & 1 != 0, e.encrypted);
        assert_eq!(flags & (1 << 11) != 0, !name_is_ascii(e.name));
        assert_eq!(flags & (1 << 3), 0);
        assert_eq!(le16(b, p + 8), match e.raw { Some(r) => r.method, None => 0 });
        assert_eq!(le16(b, p + 10), e.time);
        assert_eq!(le16(b, p + 12), e.date);
        let crc = le32(b, p + 14);
        match e.raw {
            Some(r) => assert_eq!(crc, r.crc),
            None => {
                if !e.encrypted {
                    assert_eq!(crc, ref_crc32(e.content, dlen));
                }
            }
        }
        if e.large {
            assert_eq!(le32(b, p + 18), 0xFFFF_FFFF);
            assert_eq!(le32(b, p + 22), 0xFFFF_FFFF);
            assert_eq!(le16(b, p + 30 + nlen), 1);
            assert_eq!(le16(b, p + 32 + nlen), 16);
            assert_eq!(le64(b, p + 42 + nlen), dlen as u64);
        } else {
            assert_eq!(le32(b, p + 18), dlen as u32);
            match e.raw {
                Some(r) => assert_eq!(le32(b, p + 22), r.usize_),
                None => {
                    if !e.encrypted {
                        assert_eq!(le32(b, p + 22), dlen as u32);
                    }
                }
            }
        }
        assert_eq!(le16(b, p + 26) as usize, nlen);
        assert_eq!(le16(b, p + 28) as usize, lx + e.local_extra.len());
        let mut k = 0;
        while k < nlen {
            assert_eq!(b[p + 30 + k], e.name[k]);
            k += 1;
        }
        let xat = p + 30 + nlen + lx;
        let mut k = 0;
        while k < e.local_extra.len() {
            assert_eq!(b[xat + k], e.local_extra[k]);
            k += 1;
        }
        let dat = xat + e.local_extra.len();
        let mut k = 0;
        while k < dlen {
            assert_eq!(b[dat + k], e.content[k]);
            k += 1;
        }
        p = dat + dlen;
        i += 1;
    }
    let cd_at = p;
    let mut i = 0;
    while i < n {
        let e = &exp[i];
        let nlen = e.name.len();
        let dlen = e.content.len();
        assert_eq!(le32(b, p), SIG_CENTRAL);
        assert_eq!(le16(b, p + 4) >> 8, 3);
        assert_eq!(le16(b, p + 8), le16(b, off[i] + 6));
        assert_eq!(le16(b, p + 10), match e.raw { Some(r) => r.method, None => 0 });
        assert_eq!(le16(b, p + 12), e.time);
        assert_eq!(le16(b, p + 14), e.date);
        assert_eq!(le32(b, p + 16), le32(b, off[i] + 14));
        assert_eq!(le32(b, p + 20), dlen as u32);
        match e.raw {
            Some(r) => assert_eq!(le32(b, p + 24), r.usize_),
            None => {
                if !e.encrypted {
                    assert_eq!(le32(b, p + 24), dlen as u32);
                }
            }
        }
        assert_eq!(le16(b, p + 28) as usize, nlen);
        assert_eq!(le16(b, p + 30) as usize, e.central_extra.len());
        assert_eq!(le16(b, p + 32), 0);
        assert_eq!(le32(b, p + 38) >> 16, e.mode);
        assert_eq!(le32(b, p + 42) as usize, off[i]);
        let mut k = 0;
        while k < nlen {
            assert_eq!(b[p + 46 + k], e.name[k]);
            k += 1;
        }
        let mut k = 0;
        while k < e.central_extra.len() {
            assert_eq!(b[p + 46 + nlen + k], e.central_extra[k]);
            k += 1;
        }
        p += 46 + nlen + e.central_extra.len();
        i += 1;
    }
    let eocd = p;
    assert_eq!(le32(b, eocd), SIG_EOCD);
    assert_eq!(le16(b, eocd + 4), 0);
    assert_eq!(le16(b, eocd + 6), 0);
    assert_eq!(le16(b, eocd + 8) as usize, n);
    assert_eq!(le16(b, eocd + 10) as usize, n);
    assert_eq!(le32(b, eocd + 12) as usize, eocd - cd_at);
    assert_eq!(le32(b, eocd + 16) as usize, cd_at);
    assert_eq!(le16(b, eocd + 20) as usize, comment.len());
    let mut k = 0;
    while k < comment.len() {
        assert_eq!(b[eocd + 22 + k], comment[k]);
        k += 1;
    }
    assert_eq!(end, eocd + 22 + comment.len());
}

/// expect Ok, never drop an error value on a symbolic path
macro_rules! ok {
    ($e:expr, $msg:expr) => {
        match $e {
            Ok(v) => v,
            Err(e) => {
                core::mem::forget(e);
                assert!(false, $msg);
                return;
            }
        }
    };
}
/// expect Err
macro_rules! err {
    ($e:expr, $msg:expr) => {
        match $e {
            Ok(v) => {
                core::mem::forget(v);
                assert!(false, $msg);
                return;
            }
            Err(e) => {
                core::mem::forget(e);
            }
        }
    };
}

// =============================================================================================
// C17: extra-data validation, unit level
// =============================================================================================
/// APPNOTE 4.5.2 / 4.6.1 registered header IDs (typed from the specification, independent of
/// the crate's table) - these and everything <= 31 are reserved.
const APPNOTE_IDS: [u16; 49] = [
    0x0001, 0x0007, 0x0008, 0x0009, 0x000a, 0x000c, 0x000d, 0x000e, 0x000f, 0x0014, 0x0015, 0x0016, 0x0017, 0x0018, 0x0019,
    0x0020, 0x0021, 0x0022, 0x0023, 0x0065, 0x0066, 0x4690, 0x07c8, 0x2605, 0x2705, 0x2805, 0x334d, 0x4341, 0x4453, 0x4704,
    0x470f, 0x4b46, 0x4c41, 0x4d49, 0x4f4c, 0x5356, 0x5455, 0x554e, 0x5855, 0x6375, 0x6542, 0x7075, 0x756e, 0x7855, 0xa11e,
    0xa220, 0xfd4a, 0x9901, 0x9902,
];
fn ref_id_reserved(id: u16) -> bool {
    // loop-free membership test in APPNOTE_IDS (keeps the harness's own unwinding needs small);
    // c17_ids_table_consistent shows it equals a linear search of the table above
    id <= 31
        || matches!(
            id,
            0x0001 | 0x0007 | 0x0008 | 0x0009 | 0x000a | 0x000c | 0x000d | 0x000e | 0x000f | 0x0014 | 0x0015 | 0x0016 | 0x0017
                | 0x0018 | 0x0019 | 0x0020 | 0x0021 | 0x0022 | 0x0023 | 0x0065 | 0x0066 | 0x4690 | 0x07c8 | 0x2605 | 0x2705
                | 0x2805 | 0x334d | 0x4341 | 0x4453 | 0x4704 | 0x470f | 0x4b46 | 0x4c41 | 0x4d49 | 0x4f4c | 0x5356 | 0x5455
                | 0x554e | 0x5855 | 0x6375 | 0x6542 | 0x7075 | 0x756e | 0x7855 | 0xa11e | 0xa220 | 0xfd4a | 0x9901 | 0x9902
        )
}
/// reference validity of a caller-supplied extra-data block: a sequence of (id, size, body)
/// records, none truncated, no reserved id
fn ref_extra_valid(x: &[u8]) -> bool {
    let mut p = 0;
    while p < x.len() {
        if x.len() - p < 4 {
            return false;
        }
        let id = le16(x, p);
        let sz = le16(x, p + 2) as usize;
        if ref_id_reserved(id) {
            return false;
        }
        if sz > x.len() - p - 4 {
            return false;
        }
        p += 4 + sz;
    }
    true
}

macro_rules! c17_validate {
    ($name:ident, $n:expr, $unwind:expr) => {
        #[kani::proof]
        #[kani::unwind($unwind)]
        #[kani::stub(alloc::fmt::format, crate::verif_kit::stub_format)]
        fn $name() {
            const N: usize = $n;
            let x: [u8; N] = kani::any();
            let mut f = any_zfd(ascii1(), x.to_vec());
            f.large_file = kani::any();
            let r = validate_extra_data(&f);
            let want = ref_extra_valid(&x);
            let ok = match r {
                Ok(()) => {
                    assert!(want, "reserved/truncated extra data accepted");
                    true
                }
                Err(e) => {
                    core::mem::forget(e);
                    assert!(!want, "well-formed unreserved extra data rejected");
                    false
                }
            };
            // reachability witnesses (N < 4: every block is an incomplete header)
            kani::cover!(N < 4 || ok);
            kani::cover!(!ok && (N < 4 || le16(&x, 0) == 0x0001));
            kani::cover!(!ok && (N < 4 || (le16(&x, 0) > 31 && le16(&x, 0) != 0x0001)));
            core::mem::forget(f);
        }
    };
}
/// C17 extra-data validation over EVERY 5-byte block: accepted iff it is a sequence of complete
/// records none of which uses the ZIP64 id, an id <= 31 or an APPNOTE-registered id (list typed
/// from the specification).
// @h prop=C17,C12 tier=quick t=300 mem=4 name=c17_validate_extra_5 uws="write19validate_extra_data\.0$:4;Iterator3any.*validate_extra_data:51"
c17_validate!(c17_validate_extra_5, 5, 8);
/// C17 extra-data validation over every 9-byte block (two records / truncated second header).
// @h prop=C17,C12 tier=quick t=360 mem=5 name=c17_validate_extra_9 uws="write19validate_extra_data\.0$:5;Iterator3any.*validate_extra_data:51"
c17_validate!(c17_validate_extra_9, 9, 12);
/// C17 extra-data validation over every 3-byte block (always an incomplete header).
// @h prop=C17 tier=quick t=300 mem=4 name=c17_validate_extra_3
c17_validate!(c17_validate_extra_3, 3, 6);

// =============================================================================================
// API-level call sequences (C01, C12, C17): concrete call order, symbolic parameters
// =============================================================================================
macro_rules! api_harness {
    ($name:ident, $unwind:expr, $body:block) => {
        #[kani::proof]
        #[kani::unwind($unwind)]
        #[kani::stub(time::OffsetDateTime::now_utc, crate::verif_kit::stub_now_utc)]
        #[kani::stub(crc32fast::Hasher::internal_new_specialized, crate::verif_kit::stub_crc_specialized)]
        #[kani::stub(alloc::fmt::format, crate::verif_kit::stub_format)]
        fn $name() $body
    };
}

fn sym_opts() -> (FileOptions, u16, u16, u32) {
    let date: u16 = kani::any();
    let time: u16 = kani::any();
    let perm: u32 = kani::any();
    (opts(perm, DateTime::from_msdos(date, time), false), date, time, perm & 0o777)
}

/// C12/C01: write before any file -> Err; then a directory; write after the directory -> Err;
/// end_extra_data without extra data -> Err; then a file with 1 byte; finish. The archive holds
/// exactly the directory ("d/" - slash appended, S_IFDIR|perm, empty) and the file with exactly
/// the byte whose write succeeded.
// @h prop=C12,C01 tier=quick t=300 mem=4
api_harness!(c12_misuse_then_dir_and_file, 10, {
    let mut sink = Sink::<192>::new();
    let mut w = core::mem::ManuallyDrop::new(ZipWriter::new(sink.handle())); // never dropped: Drop would re-run finalize on every early-return path
    let d0: u8 = kani::any();
    err!(w.write(&[d0]), "write before any file was accepted");
    let (o1, date1, time1, perm1) = sym_opts();
    ok!(w.add_directory("d", o1), "add_directory failed");
    err!(w.write(&[d0]), "write after a directory was accepted");
    err!(w.end_extra_data(), "end_extra_data without extra data was accepted");
    let (o2, date2, time2, perm2) = sym_opts();
    let nm = ascii1();
    let nb = [nm.as_bytes()[0]];
    ok!(w.start_file(nm, o2), "start_file failed");
    match w.write(&[d0]) {
        Ok(n) => assert_eq!(n, 1),
        Err(e) => {
            core::mem::forget(e);
            assert!(false, "write into a started file failed");
        }
    }
    ok!(w.finish(), "finish failed");
    assert!(!sink.overflow);
    let exp = [
        Exp { name: b"d/", content: &[], local_extra: &[], central_extra: &[], large: false, date: date1, time: time1, mode: 0o040000 | perm1, encrypted: false, raw: None },
        Exp { name: &nb, content: &[d0], local_extra: &[], central_extra: &[], large: false, date: date2, time: time2, mode: 0o100000 | perm2, encrypted: false, raw: None },
    ];
    judge_archive(&sink.buf, 0, sink.end, &exp, &[]);
    kani::cover!(sink.end > 100);
});

/// C12: calls after finish: write, start_file, add_directory, end_extra_data and a second
/// finish all return errors (no panic) and the finished archive (one empty file) is unchanged.
// @h prop=C12 tier=quick t=300 mem=4
api_harness!(c12_calls_after_finish, 10, {
    let mut sink = Sink::<128>::new();
    let mut w = core::mem::ManuallyDrop::new(ZipWriter::new(sink.handle())); // never dropped: Drop would re-run finalize on every early-return path
    let (o1, date1, time1, perm1) = sym_opts();
    ok!(w.start_file("a", o1), "start_file failed");
    ok!(w.finish(), "finish failed");
    let end = sink.end;
    let d0: u8 = kani::any();
    err!(w.write(&[d0]), "write after finish accepted");
    let (o2, _, _, _) = sym_opts();
    err!(w.start_file("b", o2), "start_file after finish accepted");
    err!(w.add_directory("c", o2), "add_directory after finish accepted");
    err!(w.end_extra_data(), "end_extra_data after finish accepted");
    err!(w.finish(), "second finish accepted");
    assert_eq!(sink.end, end);
    let exp = [Exp { name: b"a", content: &[], local_extra: &[], central_extra: &[], large: false, date: date1, time: time1, mode: 0o100000 | perm1, encrypted: false, raw: None }];
    judge_archive(&sink.buf, 0, sink.end, &exp, &[]);
    kani::cover!(true);
});

/// C12: a new entry implicitly closes the previous one: start_file(a)+1 byte, start_file(b)+2
/// bytes (two writes), finish: both entries hold exactly their bytes, CRCs and sizes patched.
// @h prop=C12,C01,C09 tier=quick t=300 mem=4
api_harness!(c12_implicit_close_two_files, 10, {
    let mut sink = Sink::<192>::new();
    let mut w = core::mem::ManuallyDrop::new(ZipWriter::new(sink.handle())); // never dropped: Drop would re-run finalize on every early-return path
    let d: [u8; 3] = kani::any();
    let (o1, date1, time1, perm1) = sym_opts();
    let (o2, date2, time2, perm2) = sym_opts();
    ok!(w.start_file("a", o1), "start_file a failed");
    ok!(w.write_all(&d[..1]), "write failed");
    ok!(w.start_file("b", o2), "start_file b failed");
    ok!(w.write_all(&d[1..2]), "write failed");
    ok!(w.write_all(&d[2..3]), "write failed");
    ok!(w.finish(), "finish failed");
    let exp = [
        Exp { name: b"a", content: &d[..1], local_extra: &[], central_extra: &[], large: false, date: date1, time: time1, mode: 0o100000 | perm1, encrypted: false, raw: None },
        Exp { name: b"b", content: &d[1..3], local_extra: &[], central_extra: &[], large: false, date: date2, time: time2, mode: 0o100000 | perm2, encrypted: false, raw: None },
    ];
    judge_archive(&sink.buf, 0, sink.end, &exp, &[]);
    kani::cover!(true);
});

/// C01: symlink entry: name, target stored as content, S_IFLNK|perm; write after it -> Err;
/// archive comment kept.
// @h prop=C01,C12 tier=quick t=300 mem=4
api_harness!(c01_symlink_and_comment, 10, {
    let mut sink = Sink::<128>::new();
    let mut w = core::mem::ManuallyDrop::new(ZipWriter::new(sink.handle())); // never dropped: Drop would re-run finalize on every early-return path
    let cm: [u8; 2] = kani::any();
    w.set_raw_comment(cm.to_vec());
    let (o1, date1, time1, perm1) = sym_opts();
    let t = ascii1();
    let tb = [t.as_bytes()[0]];
    ok!(w.add_symlink("s", t, o1), "add_symlink failed");
    err!(w.write(&[1u8]), "write after a symlink was accepted");
    ok!(w.finish(), "finish failed");
    let exp = [Exp { name: b"s", content: &tb, local_extra: &[], central_extra: &[], large: false, date: date1, time: time1, mode: 0o120000 | perm1, encrypted: false, raw: None }];
    judge_archive(&sink.buf, 0, sink.end, &exp, &cm);
    kani::cover!(true);
});

/// C12: an unsupported compression method is refused by start_file with an error (no panic);
/// whatever the writer's state afterwards, a later finish() either fails or yields an archive
/// that does not contain the refused entry.
// @h prop=C12 tier=quick t=300 mem=4 uws="fn:^std::ptr::drop_glue::<std::io::Error>$:2"
api_harness!(c12_unsupported_method_refused, 10, {
    let mut sink = Sink::<128>::new();
    let mut w = core::mem::ManuallyDrop::new(ZipWriter::new(sink.handle())); // never dropped: Drop would re-run finalize on every early-return path
    let m: u16 = kani::any();
    // the variant is concrete, the number symbolic (in this feature set every number but 0 decodes
    // to Unsupported(n), 99 included); a symbolic *variant* would make symbolic execution follow the
    // Stored arm too and merge a live and a closed writer
    #[allow(deprecated)]
    let method = CompressionMethod::Unsupported(m);
    let (o1, _, _, _) = sym_opts();
    err!(w.start_file("a", o1.compression_method(method)), "unsupported method accepted");
    match w.finish() {
        Ok(_) => {
            // finished archive must be the empty archive
            assert_eq!(sink.end, 22);
            assert_eq!(le32(&sink.buf, 0), SIG_EOCD);
            assert_eq!(le16(&sink.buf, 10), 0);
        }
        Err(e) => {
            core::mem::forget(e);
        }
    }
    kani::cover!(m == 99);
    kani::cover!(m == 8);
});

/// C17/C12: extra data through the extra-data calls, shared variant: start_file_with_extra_data,
/// one record (symbolic unreserved id, 1-byte body) written through Write, end_extra_data
/// (returns the final data start), 1 content byte, finish: the record is stored verbatim in BOTH
/// the local header and the central record, lengths patched, data starts where reported.
// @h prop=C17,C12 tier=quick t=840 mem=7 uws="write19validate_extra_data\.0$:4;Iterator3any.*validate_extra_data:51"
api_harness!(c17_extra_shared, 10, {
    let mut sink = Sink::<160>::new();
    let mut w = core::mem::ManuallyDrop::new(ZipWriter::new(sink.handle())); // never dropped: Drop would re-run finalize on every early-return path
    let (o1, date1, time1, perm1) = sym_opts();
    let id: u16 = kani::any();
    kani::assume(!ref_id_reserved(id));
    let body: u8 = kani::any();
    let rec = [id as u8, (id >> 8) as u8, 1, 0, body];
    let d0: u8 = kani::any();
    let pre = ok!(w.start_file_with_extra_data("a", o1), "start_file_with_extra_data failed");
    assert_eq!(pre, 31);
    ok!(w.write_all(&rec), "writing extra data failed");
    let ds = ok!(w.end_extra_data(), "end_extra_data failed on an unreserved complete record");
    assert_eq!(ds, 31 + 5);
    ok!(w.write_all(&[d0]), "write failed");
    ok!(w.finish(), "finish failed");
    let exp = [Exp { name: b"a", content: &[d0], local_extra: &rec, central_extra: &rec, large: false, date: date1, time: time1, mode: 0o100000 | perm1, encrypted: false, raw: None }];
    judge_archive(&sink.buf, 0, sink.end, &exp, &[]);
    kani::cover!(id == 0xbeef);
});

/// C17: local-only + central-only extra data: local record before
/// end_local_start_central_extra_data appears only in the local header, the central record
/// only in the central directory.
// @h prop=C17,C12 tier=dev t=600 mem=12 uws="write19validate_extra_data\.0$:4;Iterator3any.*validate_extra_data:51"
api_harness!(c17_extra_local_and_central, 10, {
    let mut sink = Sink::<160>::new();
    let mut w = core::mem::ManuallyDrop::new(ZipWriter::new(sink.handle())); // never dropped: Drop would re-run finalize on every early-return path
    let (o1, date1, time1, perm1) = sym_opts();
    let id1: u16 = kani::any();
    let id2: u16 = kani::any();
    kani::assume(!ref_id_reserved(id1) && !ref_id_reserved(id2));
    let b1: u8 = kani::any();
    let b2: [u8; 2] = kani::any();
    let lrec = [id1 as u8, (id1 >> 8) as u8, 1, 0, b1];
    let crec = [id2 as u8, (id2 >> 8) as u8, 2, 0, b2[0], b2[1]];
    let d0: u8 = kani::any();
    ok!(w.start_file_with_extra_data("a", o1), "start_file_with_extra_data failed");
    ok!(w.write_all(&lrec), "writing extra data failed");
    let ds = ok!(w.end_local_start_central_extra_data(), "end_local_start_central_extra_data failed");
    assert_eq!(ds, 31 + 5);
    ok!(w.write_all(&crec), "writing extra data failed");
    let ds2 = ok!(w.end_extra_data(), "end_extra_data failed");
    assert_eq!(ds2, 31 + 5);
    ok!(w.write_all(&[d0]), "write failed");
    ok!(w.finish(), "finish failed");
    let exp = [Exp { name: b"a", content: &[d0], local_extra: &lrec, central_extra: &crec, large: false, date: date1, time: time1, mode: 0o100000 | perm1, encrypted: false, raw: None }];
    judge_archive(&sink.buf, 0, sink.end, &exp, &[]);
    kani::cover!(true);
});

/// C17/C12: reserved or malformed extra data is refused by end_extra_data with an error: one
/// record with a symbolic id (reserved) or a truncated body.
// @h prop=C17,C12 tier=quick t=360 mem=4 uws="write19validate_extra_data\.0$:4;Iterator3any.*validate_extra_data:51"
api_harness!(c17_extra_reserved_refused, 10, {
    let mut sink = Sink::<160>::new();
    let mut w = core::mem::ManuallyDrop::new(ZipWriter::new(sink.handle())); // never dropped: Drop would re-run finalize on every early-return path
    let (o1, _, _, _) = sym_opts();
    let id: u16 = kani::any();
    let sz: u16 = kani::any();
    let body: u8 = kani::any();
    kani::assume(ref_id_reserved(id) || sz > 1);
    let rec = [id as u8, (id >> 8) as u8, sz as u8, (sz >> 8) as u8, body];
    ok!(w.start_file_with_extra_data("a", o1), "start_file_with_extra_data failed");
    ok!(w.write_all(&rec), "writing extra data failed");
    err!(w.end_extra_data(), "reserved/truncated extra data accepted");
    kani::cover!(id == 1);
    kani::cover!(id == 0xbeef && sz == 2);
});

/// C17/C12/C02: shared extra data on a large_file(true) entry: the local extra-field length
/// must cover the 20-byte ZIP64 block plus the caller's record, data starts where reported.
// @h prop=C17,C12,C02 tier=quick t=840 mem=7 uws="write19validate_extra_data\.0$:4;Iterator3any.*validate_extra_data:51"
api_harness!(c17_extra_shared_large, 10, {
    let mut sink = Sink::<192>::new();
    let mut w = core::mem::ManuallyDrop::new(ZipWriter::new(sink.handle())); // never dropped: Drop would re-run finalize on every early-return path
    let (o1, date1, time1, perm1) = sym_opts();
    let o1 = o1.large_file(true);
    let id: u16 = kani::any();
    kani::assume(!ref_id_reserved(id));
    let body: u8 = kani::any();
    let rec = [id as u8, (id >> 8) as u8, 1, 0, body];
    let d0: u8 = kani::any();
    let pre = ok!(w.start_file_with_extra_data("a", o1), "start_file_with_extra_data failed");
    assert_eq!(pre, 31 + 20);
    ok!(w.write_all(&rec), "writing extra data failed");
    let ds = ok!(w.end_extra_data(), "end_extra_data failed on an unreserved complete record");
    assert_eq!(ds, 31 + 20 + 5);
    ok!(w.write_all(&[d0]), "write failed");
    ok!(w.finish(), "finish failed");
    let exp = [Exp { name: b"a", content: &[d0], local_extra: &rec, central_extra: &rec, large: true, date: date1, time: time1, mode: 0o100000 | perm1, encrypted: false, raw: None }];
    judge_archive(&sink.buf, 0, sink.end, &exp, &[]);
    kani::cover!(id == 0xbeef);
});

/// C17/C12: central-only extra data is validated too: after end_local_start_central_extra_data a
/// record with a reserved id or a truncated body makes end_extra_data fail.
// @h prop=C17,C12 tier=quick t=360 mem=4 uws="write19validate_extra_data\.0$:4;Iterator3any.*validate_extra_data:51"
api_harness!(c17_central_only_reserved_refused, 10, {
    let mut sink = Sink::<160>::new();
    let mut w = core::mem::ManuallyDrop::new(ZipWriter::new(sink.handle())); // never dropped: Drop would re-run finalize on every early-return path
    let (o1, _, _, _) = sym_opts();
    let id: u16 = kani::any();
    let sz: u16 = kani::any();
    let body: u8 = kani::any();
    kani::assume(ref_id_reserved(id) || sz > 1);
    let rec = [id as u8, (id >> 8) as u8, sz as u8, (sz >> 8) as u8, body];
    ok!(w.start_file_with_extra_data("a", o1), "start_file_with_extra_data failed");
    ok!(w.end_local_start_central_extra_data(), "end_local_start_central_extra_data failed on empty local data");
    ok!(w.write_all(&rec), "writing extra data failed");
    err!(w.end_extra_data(), "reserved/truncated central-only extra data accepted");
    kani::cover!(id == 1);
    kani::cover!(id == 0xbeef && sz == 2);
});

/// C09 writer half / C01: the sink accepts only ONE byte of a 2-byte Write::write call (short
/// write): the writer reports 1, the caller writes the rest, and the finished archive is
/// byte-for-byte the reference archive of the 2-byte payload (CRC and sizes count only the bytes
/// the sink accepted).
// @h prop=C09,C01 tier=quick t=600 mem=6 uws="fn:^std::ptr::drop_glue::<std::io::Error>$:2"
api_harness!(c09_writer_one_short_write, 10, {
    let mut sink = Sink::<128>::new();
    let mut w = core::mem::ManuallyDrop::new(ZipWriter::new(sink.handle()));
    let d: [u8; 2] = kani::any();
    let (o1, date1, time1, perm1) = sym_opts();
    ok!(w.start_file("a", o1), "start_file failed");
    sink.env.short = true;
    sink.env.sched = 0; // every call accepts 1 byte
    match w.write(&d) {
        Ok(n) => assert_eq!(n, 1),
        Err(e) => {
            core::mem::forget(e);
            assert!(false, "write failed");
        }
    }
    sink.env.short = false;
    match w.write(&d[1..]) {
        Ok(n) => assert_eq!(n, 1),
        Err(e) => {
            core::mem::forget(e);
            assert!(false, "write failed");
        }
    }
    ok!(w.finish(), "finish failed");
    let exp = [Exp { name: b"a", content: &d, local_extra: &[], central_extra: &[], large: false, date: date1, time: time1, mode: 0o100000 | perm1, encrypted: false, raw: None }];
    judge_archive(&sink.buf, 0, sink.end, &exp, &[]);
    kani::cover!(true);
});

/// C09 writer half / C01: the sink accepts the entry DATA in arbitrary short writes (1..=4 bytes per
/// call, symbolic schedule); the finished archive is byte-for-byte the one the reference layout
/// prescribes (CRC, sizes, data), i.e. identical to the archive produced with full writes.
// @h prop=C09,C01 tier=dev t=600 mem=10 uws="fn:^std::ptr::drop_glue::<std::io::Error>$:2"
api_harness!(c09_writer_short_data_writes, 10, {
    let mut sink = Sink::<128>::new();
    let mut w = core::mem::ManuallyDrop::new(ZipWriter::new(sink.handle())); // never dropped: Drop would re-run finalize on every early-return path
    let d: [u8; 3] = kani::any();
    let (o1, date1, time1, perm1) = sym_opts();
    ok!(w.start_file("a", o1), "start_file failed");
    sink.env.short = true;
    sink.env.sched = kani::any();
    ok!(w.write_all(&d), "write failed");
    sink.env.short = false;
    ok!(w.finish(), "finish failed");
    let exp = [Exp { name: b"a", content: &d, local_extra: &[], central_extra: &[], large: false, date: date1, time: time1, mode: 0o100000 | perm1, encrypted: false, raw: None }];
    judge_archive(&sink.buf, 0, sink.end, &exp, &[]);
    kani::cover!(sink.env.calls > 30);
});

/// C08/C02 finalize at every archive position: an empty archive whose end records are written at
/// an arbitrary 62-bit file offset (sparse sink). Central-directory offset > 0xFFFFFFFF <=> a
/// ZIP64 end record + locator precede the classic record; the ZIP64 record carries the exact
/// offset, the locator points at the ZIP64 record, the classic record holds the sentinel; below
/// the limit the classic record alone holds the exact offset.
// @h prop=C08,C02 tier=quick t=300 mem=4
api_harness!(c08_finalize_any_offset_empty, 10, {
    let base: u64 = kani::any();
    kani::assume(base < (1u64 << 62));
    let mut sink = Sink::<128>::with_base(base);
    let mut w = core::mem::ManuallyDrop::new(ZipWriter::new(sink.handle())); // never dropped: Drop would re-run finalize on every early-return path
    ok!(w.finish(), "finish failed");
    let b = &sink.buf;
    if sink.end == 22 {
        assert!(base <= THR, "central directory beyond 4 GiB without a ZIP64 end record");
        assert_eq!(le32(b, 0), SIG_EOCD);
        assert_eq!(le16(b, 8), 0);
        assert_eq!(le16(b, 10), 0);
        assert_eq!(le32(b, 12), 0);
        assert_eq!(le32(b, 16) as u64, base);
        assert_eq!(le16(b, 20), 0);
    } else {
        assert_eq!(sink.end, 56 + 20 + 22);
        assert!(base >= THR);
        assert_eq!(le32(b, 0), SIG_EOCD64);
        assert_eq!(le64(b, 4), 44);
        assert!(le16(b, 14) >= 45);
        assert_eq!(le32(b, 16), 0);
        assert_eq!(le32(b, 20), 0);
        assert_eq!(le64(b, 24), 0);
        assert_eq!(le64(b, 32), 0);
        assert_eq!(le64(b, 40), 0);
        assert_eq!(le64(b, 48), base);
        assert_eq!(le32(b, 56), SIG_LOC64);
        assert_eq!(le32(b, 60), 0);
        assert_eq!(le64(b, 64), base);
        assert_eq!(le32(b, 72), 1);
        assert_eq!(le32(b, 76), SIG_EOCD);
        assert_eq!(le16(b, 84), 0);
        assert_eq!(le16(b, 86), 0);
        assert_eq!(le32(b, 88), 0);
        assert_eq!(le32(b, 92), 0xFFFF_FFFF);
    }
    kani::cover!(base == THR + 1);
    kani::cover!(base == THR);
});

macro_rules! c08_write_guard {
    ($name:ident, $large:expr) => {
        #[kani::proof]
        #[kani::unwind(10)]
        #[kani::stub(time::OffsetDateTime::now_utc, crate::verif_kit::stub_now_utc)]
        #[kani::stub(crc32fast::Hasher::internal_new_specialized, crate::verif_kit::stub_crc_specialized)]
        #[kani::stub(alloc::fmt::format, crate::verif_kit::stub_format)]
        fn $name() {
            const LARGE: bool = $large;
            let mut sink = Sink::<160>::new();
            let mut w = core::mem::ManuallyDrop::new(ZipWriter::new(sink.handle()));
            let (o1, _, _, _) = sym_opts();
            ok!(w.start_file("a", o1.large_file(LARGE)), "start_file failed");
            let n: u64 = kani::any();
            kani::assume(n <= (1u64 << 33));
            w.stats.bytes_written = n;
            let d0: u8 = kani::any();
            let mut refused = false;
            match w.write(&[d0]) {
                Ok(k) => {
                    assert_eq!(k, 1);
                    assert!(LARGE || n + 1 <= THR, "write beyond 4 GiB accepted for an entry not declared large");
                    // the writer is still open and counted the byte; continue from exactly that
                    // state, written back as constants for the symbolic execution (write() merges an
                    // open and a poisoned writer, which would make every later access a two-way case)
                    assert!(matches!(w.inner, GenericZipWriter::Storer(MaybeEncrypted::Unencrypted(_))));
                    assert_eq!(w.stats.bytes_written, n + 1);
                    w.inner = GenericZipWriter::Storer(MaybeEncrypted::Unencrypted(sink.handle()));
                    w.stats.bytes_written = n + 1;
                    ok!(w.finish(), "finish failed");
                    let b = &sink.buf;
                    let lx = if LARGE { 20 } else { 0 };
                    let cd = 31 + lx + 1;
                    assert_eq!(le32(b, cd), SIG_CENTRAL);
                    let f = (le32(b, cd + 24), le32(b, cd + 20), le32(b, cd + 42));
                    let elen = le16(b, cd + 30) as usize;
                    match strict_zip64_decode(b, cd + 47, elen, f) {
                        Some((usz, csz, off, _)) => {
                            assert_eq!(usz, n + 1);
                            assert_eq!(csz, 1);
                            assert_eq!(off, 0);
                        }
                        None => assert!(false, "central ZIP64 record inconsistent"),
                    }
                    if LARGE {
                        assert_eq!(le64(b, 35), n + 1);
                    } else {
                        assert_eq!(le32(b, 22) as u64, n + 1);
                    }
                    kani::cover!(n + 1 > THR || !LARGE);
                    kani::cover!(n + 1 == THR || LARGE);
                }
                Err(e) => {
                    core::mem::forget(e);
                    assert!(!LARGE && n + 1 > THR, "write refused although the entry may grow");
                    // poisoned: closed for good
                    assert!(matches!(w.inner, GenericZipWriter::Closed));
                    w.inner = GenericZipWriter::Closed;
                    err!(w.finish(), "finish() succeeded after the 4 GiB guard fired");
                    err!(w.write(&[d0]), "write accepted after the 4 GiB guard fired");
                    refused = true;
                }
            }
            kani::cover!(LARGE || refused);
        }
    };
}
/// C08 the 4 GiB guard, one step from a constructed state ("n bytes have been written to this
/// Stored entry", n symbolic up to 8 GiB, sink position not advanced), entry NOT declared large:
/// one more byte is accepted iff the total still fits 32 bits; when refused the writer is
/// poisoned and no later finish() or write succeeds; when accepted and finished, the recorded
/// uncompressed size is exactly n+1, never a wrapped value.
// @h prop=C08,C12 tier=quick t=300 mem=4 name=c08_write_guard_4gib uws="fn:^std::ptr::drop_glue::<std::io::Error>$:2;4Sink.*9write_all.*\.1$:30"
c08_write_guard!(c08_write_guard_4gib, false);
/// C08 the same step for an entry declared large_file(true): always accepted; the ZIP64 records
/// (local and central) carry exactly n+1 for every n up to 8 GiB.
// @h prop=C08,C12 tier=quick t=300 mem=4 name=c08_write_guard_4gib_large uws="fn:^std::ptr::drop_glue::<std::io::Error>$:2;4Sink.*9write_all.*\.1$:30"
c08_write_guard!(c08_write_guard_4gib_large, true);

/// C17 alignment for every small alignment value and every preceding file offset: an entry
/// started with start_file_aligned(align in 0..=8) at an arbitrary 40-bit file position has its
/// data at a multiple of align (align >= 2), the padding travels in a well-formed local extra
/// record (id 0x617a) that is absent from the central directory, the returned pad equals the
/// local extra length, and the content byte is where the local header says.
// @h prop=C17 tier=dev t=600 mem=10 uws="fn:^std::ptr::drop_glue::<std::io::Error>$:2"
api_harness!(c17_aligned_small_any_offset, 12, {
    let base: u64 = kani::any();
    kani::assume(base < (1u64 << 32) - 4096);
    let align: u16 = kani::any();
    kani::assume(align <= 8);
    let mut sink = Sink::<128>::with_base(base);
    let mut w = core::mem::ManuallyDrop::new(ZipWriter::new(sink.handle())); // never dropped: Drop would re-run finalize on every early-return path
    let (o1, _, _, _) = sym_opts();
    let d0: u8 = kani::any();
    let pad = match w.start_file_aligned("a", o1, align) {
        Ok(p) => p,
        Err(e) => {
            core::mem::forget(e);
            assert!(false, "a small alignment was refused");
            return;
        }
    };
    ok!(w.write_all(&[d0]), "write failed");
    ok!(w.finish(), "finish failed");
    let b = &sink.buf;
    assert_eq!(le32(b, 0), SIG_LOCAL);
    assert_eq!(le16(b, 26), 1);
    let x = le16(b, 28) as usize;
    assert_eq!(pad, x as u64);
    assert!(x == 0 || (x >= 4 && x < 4 + 8));
    let data_at = 31 + x;
    if align >= 2 {
        assert_eq!((base + data_at as u64) % (align as u64), 0, "entry data not aligned");
    } else {
        assert_eq!(x, 0);
    }
    if x > 0 {
        assert_eq!(le16(b, 31), 0x617a);
        assert_eq!(le16(b, 33) as usize, x - 4);
    }
    assert_eq!(b[data_at], d0);
    let cd = data_at + 1;
    assert_eq!(le32(b, cd), SIG_CENTRAL);
    assert_eq!(le16(b, cd + 30), 0); // padding is local-only
    assert_eq!(le32(b, cd + 42) as u64, base);
    assert_eq!(le32(b, cd + 20), 1);
    kani::cover!(x == 4);
    kani::cover!(x == 0 && align == 8);
    kani::cover!(x == 11);
});

/// A concrete 4-byte unknown extra record (id 0xcafe, empty body) closing the last central
/// header, with disk-number-start 0: the 4 bytes at (end record - 20), where the reader probes
/// for a ZIP64 locator signature, are then concrete, so the probe is decided during symbolic
/// execution (otherwise CBMC explores the ZIP64 search with symbolic seek positions: > 8 GB).
/// ZIP64 locator / end-record handling is covered by c08_*.
const TAILX: [u8; 4] = [0xfe, 0xca, 0, 0];

/// C14/C12 raw copy between two normally written entries, from the ZipFile that by_index_raw
/// hands out (constructed: metadata with EVERY scalar symbolic - method ANY 16-bit number incl.
/// undecodable ones, declared CRC, declared uncompressed size (< 4 GiB), time, host system,
/// external attributes -, raw reader over 2 symbolic stored bytes): copied under a new name with
/// raw_copy_file_rename its compressed bytes, method, CRC, sizes and time arrive unchanged,
/// permission bits equal the source's (default mode when the source has none), and the entries
/// written before and after it hold exactly their own bytes with their own CRCs.
// @h prop=C14,C12,C01 tier=dev t=600 mem=12 uws="fn:^<read::ZipFileReader<'_> as std::io::Read>::read$:1;fn:^<read::CryptoReader<'_> as std::io::Read>::read$:1;fn:impl std::io::Read for std::io::Take<&mut dyn std::io::Read>>::read$:2;fn:impl std::io::Read for &mut dyn std::io::Read>::read$:3;fn:^std::ptr::drop_glue::<:2;fn:Drop>::drop$:2;fn:drop_box_raw:2;fn:^std::mem::drop::<:2"
#[kani::proof]
#[kani::unwind(10)]
#[kani::stub(time::OffsetDateTime::now_utc, crate::verif_kit::stub_now_utc)]
#[kani::stub(crc32fast::Hasher::internal_new_specialized, crate::verif_kit::stub_crc_specialized)]
#[kani::stub(alloc::fmt::format, crate::verif_kit::stub_format)]
#[kani::stub(std::io::copy, crate::verif_kit::stub_io_copy)]
fn c14_raw_copy_between_neighbours() {
    let payload: [u8; 2] = kani::any();
    let mut srcdata = any_zfd(String::from("s"), Vec::new());
    srcdata.encrypted = false;
    srcdata.compressed_size = 2;
    kani::assume(srcdata.uncompressed_size <= 0xFFFF_FFFF);
    let mut src = Src::<2>::new(payload, 2);
    let mut sink = Sink::<224>::new();
    let mut w = core::mem::ManuallyDrop::new(ZipWriter::new(sink.handle())); // never dropped: Drop would re-run finalize on every early-return path
    let (o1, date1, time1, perm1) = sym_opts();
    let (o3, date3, time3, perm3) = sym_opts();
    let d: [u8; 2] = kani::any();
    ok!(w.start_file("x", o1), "start_file x failed");
    ok!(w.write_all(&d[..1]), "write failed");
    {
        let f = crate::read::verif_h::mk_raw_zipfile(&srcdata, &mut src);
        ok!(w.raw_copy_file_rename(f, "y"), "raw copy failed");
    }
    ok!(w.start_file("z", o3), "start_file z failed");
    ok!(w.write_all(&d[1..]), "write failed");
    ok!(w.finish(), "finish failed");
    let eattr = srcdata.external_attributes;
    let src_mode = match srcdata.system {
        System::Unix if eattr != 0 => Some(eattr >> 16),
        System::Dos if eattr != 0 => {
            let mut m = if eattr & 0x10 != 0 { 0o040000 | 0o775 } else { 0o100000 | 0o664 };
            if eattr & 1 != 0 {
                m &= 0o555;
            }
            Some(m)
        }
        _ => None,
    };
    let want_mode = match src_mode {
        Some(m) => m & 0o777,
        None => 0o100644,
    };
    #[allow(deprecated)]
    let smethod = srcdata.compression_method.to_u16();
    let exp = [
        Exp { name: b"x", content: &d[..1], local_extra: &[], central_extra: &[], large: false, date: date1, time: time1, mode: 0o100000 | perm1, encrypted: false, raw: None },
        Exp { name: b"y", content: &payload, local_extra: &[], central_extra: &[], large: false, date: srcdata.last_modified_time.datepart(), time: srcdata.last_modified_time.timepart(), mode: want_mode, encrypted: false, raw: Some(RawExp { method: smethod, crc: srcdata.crc32, usize_: srcdata.uncompressed_size as u32 }) },
        Exp { name: b"z", content: &d[1..], local_extra: &[], central_extra: &[], large: false, date: date3, time: time3, mode: 0o100000 | perm3, encrypted: false, raw: None },
    ];
    judge_archive(&sink.buf, 0, sink.end, &exp, &[]);
    kani::cover!(smethod == 8);
    kani::cover!(src_mode.is_none());
    core::mem::forget(srcdata);
}

// C11 writer: the sink fails at ONE I/O call. The call index is concrete per harness variant
// (every index of the scenario gets its own variant), everything else - payload, times,
// permissions - is symbolic. A symbolic index would make every later writer state a merge of a
// failed and a healthy writer (symbolic execution then follows both through every later call):
// > 10 GB, no verdict.
macro_rules! c11_fault_at {
    ($name:ident, $k:expr) => {
        #[kani::proof]
        #[kani::unwind(10)]
        #[kani::stub(time::OffsetDateTime::now_utc, crate::verif_kit::stub_now_utc)]
        #[kani::stub(crc32fast::Hasher::internal_new_specialized, crate::verif_kit::stub_crc_specialized)]
        #[kani::stub(alloc::fmt::format, crate::verif_kit::stub_format)]
        #[kani::stub(core::fmt::write, crate::verif_kit::stub_fmt_write)]
        fn $name() {
            let mut sink = Sink::<192>::with_env(Env::faulty($k, K_READ | K_WRITE | K_FLUSH | K_SEEK));
            let mut w = core::mem::ManuallyDrop::new(ZipWriter::new(sink.handle()));
            let d: [u8; 2] = kani::any();
            let (o1, date1, time1, perm1) = sym_opts();
            let (o2, date2, time2, perm2) = sym_opts();
            let mut any_err = false;
            match w.start_file("a", o1) {
                Ok(()) => {}
                Err(e) => {
                    core::mem::forget(e);
                    any_err = true;
                }
            }
            // Write::write, not write_all: std's write_all inspects and drops a refused call's
            // io::Error (tagged-pointer decoding of a boxed custom error), which CBMC cannot follow
            match w.write(&d[..1]) {
                Ok(n) => assert_eq!(n, 1),
                Err(e) => {
                    core::mem::forget(e);
                    any_err = true;
                }
            }
            match w.start_file("b", o2) {
                Ok(()) => {}
                Err(e) => {
                    core::mem::forget(e);
                    any_err = true;
                }
            }
            match w.write(&d[1..]) {
                Ok(n) => assert_eq!(n, 1),
                Err(e) => {
                    core::mem::forget(e);
                    any_err = true;
                }
            }
            match w.finish() {
                Ok(_) => {}
                Err(e) => {
                    core::mem::forget(e);
                    any_err = true;
                }
            }
            // the implicit finalisation a caller gets by dropping the writer must not panic either
            unsafe { core::mem::ManuallyDrop::drop(&mut w) };
            if !any_err {
                let exp = [
                    Exp { name: b"a", content: &d[..1], local_extra: &[], central_extra: &[], large: false, date: date1, time: time1, mode: 0o100000 | perm1, encrypted: false, raw: None },
                    Exp { name: b"b", content: &d[1..], local_extra: &[], central_extra: &[], large: false, date: date2, time: time2, mode: 0o100000 | perm2, encrypted: false, raw: None },
                ];
                judge_archive(&sink.buf, 0, sink.end, &exp, &[]);
            }
            // a fault inside the scenario is always reported by some call
            assert!(!sink.env.faulted || any_err, "an I/O failure was swallowed");
            kani::cover!(true);
        }
    };
}
/// C11 writer scenario (start_file a, write, start_file b, write, finish, drop): the sink's I/O call number 0 fails (whatever its kind: write, seek or flush). No call panics - neither then nor later, incl. the implicit finalisation on drop -, the failure is reported by some call, and a failure-free run yields exactly the reference archive.
// @h prop=C11 tier=quick t=300 mem=4 name=c11_writer_fault_k000 uws="fn:^std::ptr::drop_glue::<:2;fn:Drop>::drop$:2;fn:drop_box_raw:2;fn:^std::mem::drop::<:2"
c11_fault_at!(c11_writer_fault_k000, 0);
/// C11 writer scenario (start_file a, write, start_file b, write, finish, drop): the sink's I/O call number 1 fails (whatever its kind: write, seek or flush). No call panics - neither then nor later, incl. the implicit finalisation on drop -, the failure is reported by some call, and a failure-free run yields exactly the reference archive.
// @h prop=C11 tier=thorough t=300 mem=4 name=c11_writer_fault_k001 uws="fn:^std::ptr::drop_glue::<:2;fn:Drop>::drop$:2;fn:drop_box_raw:2;fn:^std::mem::drop::<:2"
c11_fault_at!(c11_writer_fault_k001, 1);
/// C11 writer scenario (start_file a, write, start_file b, write, finish, drop): the sink's I/O call number 2 fails (whatever its kind: write, seek or flush). No call panics - neither then nor later, incl. the implicit finalisation on drop -, the failure is reported by some call, and a failure-free run yields exactly the reference archive.
// @h prop=C11 tier=thorough t=300 mem=4 name=c11_writer_fault_k002 uws="fn:^std::ptr::drop_glue::<:2;fn:Drop>::drop$:2;fn:drop_box_raw:2;fn:^std::mem::drop::<:2"
c11_fault_at!(c11_writer_fault_k002, 2);
/// C11 writer scenario (start_file a, write, start_file b, write, finish, drop): the sink's I/O call number 3 fails (whatever its kind: write, seek or flush). No call panics - neither then nor later, incl. the implicit finalisation on drop -, the failure is reported by some call, and a failure-free run yields exactly the reference archive.
// @h prop=C11 tier=thorough t=300 mem=4 name=c11_writer_fault_k003 uws="fn:^std::ptr::drop_glue::<:2;fn:Drop>::drop$:2;fn:drop_box_raw:2;fn:^std::mem::drop::<:2"
c11_fault_at!(c11_writer_fault_k003, 3);
/// C11 writer scenario (start_file a, write, start_file b, write, finish, drop): the sink's I/O call number 4 fails (whatever its kind: write, seek or flush). No call panics - neither then nor later, incl. the implicit finalisation on drop -, the failure is reported by some call, and a failure-free run yields exactly the reference archive.
// @h prop=C11 tier=thorough t=300 mem=4 name=c11_writer_fault_k004 uws="fn:^std::ptr::drop_glue::<:2;fn:Drop>::drop$:2;fn:drop_box_raw:2;fn:^std::mem::drop::<:2"
c11_fault_at!(c11_writer_fault_k004, 4);
/// C11 writer scenario (start_file a, write, start_file b, write, finish, drop): the sink's I/O call number 5 fails (whatever its kind: write, seek or flush). No call panics - neither then nor later, incl. the implicit finalisation on drop -, the failure is reported by some call, and a failure-free run yields exactly the reference archive.
// @h prop=C11 tier=thorough t=300 mem=4 name=c11_writer_fault_k005 uws="fn:^std::ptr::drop_glue::<:2;fn:Drop>::drop$:2;fn:drop_box_raw:2;fn:^std::mem::drop::<:2"
c11_fault_at!(c11_writer_fault_k005, 5);
/// C11 writer scenario (start_file a, write, start_file b, write, finish, drop): the sink's I/O call number 6 fails (whatever its kind: write, seek or flush). No call panics - neither then nor later, incl. the implicit finalisation on drop -, the failure is reported by some call, and a failure-free run yields exactly the reference archive.
// @h prop=C11 tier=thorough t=300 mem=4 name=c11_writer_fault_k006 uws="fn:^std::ptr::drop_glue::<:2;fn:Drop>::drop$:2;fn:drop_box_raw:2;fn:^std::mem::drop::<:2"
c11_fault_at!(c11_writer_fault_k006, 6);
/// C11 writer scenario (start_file a, write, start_file b, write, finish, drop): the sink's I/O call number 7 fails (whatever its kind: write, seek or flush). No call panics - neither then nor later, incl. the implicit finalisation on drop -, the failure is reported by some call, and a failure-free run yields exactly the reference archive.
// @h prop=C11 tier=thorough t=300 mem=4 name=c11_writer_fault_k007 uws="fn:^std::ptr::drop_glue::<:2;fn:Drop>::drop$:2;fn:drop_box_raw:2;fn:^std::mem::drop::<:2"
c11_fault_at!(c11_writer_fault_k007, 7);
/// C11 writer scenario (start_file a, write, start_file b, write, finish, drop): the sink's I/O call number 8 fails (whatever its kind: write, seek or flush). No call panics - neither then nor later, incl. the implicit finalisation on drop -, the failure is reported by some call, and a failure-free run yields exactly the reference archive.
// @h prop=C11 tier=thorough t=300 mem=4 name=c11_writer_fault_k008 uws="fn:^std::ptr::drop_glue::<:2;fn:Drop>::drop$:2;fn:drop_box_raw:2;fn:^std::mem::drop::<:2"
c11_fault_at!(c11_writer_fault_k008, 8);
/// C11 writer scenario (start_file a, write, start_file b, write, finish, drop): the sink's I/O call number 9 fails (whatever its kind: write, seek or flush). No call panics - neither then nor later, incl. the implicit finalisation on drop -, the failure is reported by some call, and a failure-free run yields exactly the reference archive.
// @h prop=C11 tier=thorough t=300 mem=4 name=c11_writer_fault_k009 uws="fn:^std::ptr::drop_glue::<:2;fn:Drop>::drop$:2;fn:drop_box_raw:2;fn:^std::mem::drop::<:2"
c11_fault_at!(c11_writer_fault_k009, 9);
/// C11 writer scenario (start_file a, write, start_file b, write, finish, drop): the sink's I/O call number 10 fails (whatever its kind: write, seek or flush). No call panics - neither then nor later, incl. the implicit finalisation on drop -, the failure is reported by some call, and a failure-free run yields exactly the reference archive.
// @h prop=C11 tier=thorough t=300 mem=4 name=c11_writer_fault_k010 uws="fn:^std::ptr::drop_glue::<:2;fn:Drop>::drop$:2;fn:drop_box_raw:2;fn:^std::mem::drop::<:2"
c11_fault_at!(c11_writer_fault_k010, 10);
/// C11 writer scenario (start_file a, write, start_file b, write, finish, drop): the sink's I/O call number 11 fails (whatever its kind: write, seek or flush). No call panics - neither then nor later, incl. the implicit finalisation on drop -, the failure is reported by some call, and a failure-free run yields exactly the reference archive.
// @h prop=C11 tier=thorough t=300 mem=4 name=c11_writer_fault_k011 uws="fn:^std::ptr::drop_glue::<:2;fn:Drop>::drop$:2;fn:drop_box_raw:2;fn:^std::mem::drop::<:2"
c11_fault_at!(c11_writer_fault_k011, 11);
/// C11 writer scenario (start_file a, write, start_file b, write, finish, drop): the sink's I/O call number 12 fails (whatever its kind: write, seek or flush). No call panics - neither then nor later, incl. the implicit finalisation on drop -, the failure is reported by some call, and a failure-free run yields exactly the reference archive.
// @h prop=C11 tier=thorough t=300 mem=4 name=c11_writer_fault_k012 uws="fn:^std::ptr::drop_glue::<:2;fn:Drop>::drop$:2;fn:drop_box_raw:2;fn:^std::mem::drop::<:2"
c11_fault_at!(c11_writer_fault_k012, 12);
/// C11 writer scenario (start_file a, write, start_file b, write, finish, drop): the sink's I/O call number 13 fails (whatever its kind: write, seek or flush). No call panics - neither then nor later, incl. the implicit finalisation on drop -, the failure is reported by some call, and a failure-free run yields exactly the reference archive.
// @h prop=C11 tier=quick t=300 mem=4 name=c11_writer_fault_k013 uws="fn:^std::ptr::drop_glue::<:2;fn:Drop>::drop$:2;fn:drop_box_raw:2;fn:^std::mem::drop::<:2"
c11_fault_at!(c11_writer_fault_k013, 13);
/// C11 writer scenario (start_file a, write, start_file b, write, finish, drop): the sink's I/O call number 14 fails (whatever its kind: write, seek or flush). No call panics - neither then nor later, incl. the implicit finalisation on drop -, the failure is reported by some call, and a failure-free run yields exactly the reference archive.
// @h prop=C11 tier=quick t=300 mem=4 name=c11_writer_fault_k014 uws="fn:^std::ptr::drop_glue::<:2;fn:Drop>::drop$:2;fn:drop_box_raw:2;fn:^std::mem::drop::<:2"
c11_fault_at!(c11_writer_fault_k014, 14);
/// C11 writer scenario (start_file a, write, start_file b, write, finish, drop): the sink's I/O call number 15 fails (whatever its kind: write, seek or flush). No call panics - neither then nor later, incl. the implicit finalisation on drop -, the failure is reported by some call, and a failure-free run yields exactly the reference archive.
// @h prop=C11 tier=quick t=300 mem=4 name=c11_writer_fault_k015 uws="fn:^std::ptr::drop_glue::<:2;fn:Drop>::drop$:2;fn:drop_box_raw:2;fn:^std::mem::drop::<:2"
c11_fault_at!(c11_writer_fault_k015, 15);
/// C11 writer scenario (start_file a, write, start_file b, write, finish, drop): the sink's I/O call number 16 fails (whatever its kind: write, seek or flush). No call panics - neither then nor later, incl. the implicit finalisation on drop -, the failure is reported by some call, and a failure-free run yields exactly the reference archive.
// @h prop=C11 tier=quick t=300 mem=4 name=c11_writer_fault_k016 uws="fn:^std::ptr::drop_glue::<:2;fn:Drop>::drop$:2;fn:drop_box_raw:2;fn:^std::mem::drop::<:2"
c11_fault_at!(c11_writer_fault_k016, 16);
/// C11 writer scenario (start_file a, write, start_file b, write, finish, drop): the sink's I/O call number 17 fails (whatever its kind: write, seek or flush). No call panics - neither then nor later, incl. the implicit finalisation on drop -, the failure is reported by some call, and a failure-free run yields exactly the reference archive.
// @h prop=C11 tier=quick t=1500 mem=14 name=c11_writer_fault_k017 uws="fn:^std::ptr::drop_glue::<:2;fn:Drop>::drop$:2;fn:drop_box_raw:2;fn:^std::mem::drop::<:2"
c11_fault_at!(c11_writer_fault_k017, 17);
/// C11 writer scenario (start_file a, write, start_file b, write, finish, drop): the sink's I/O call number 18 fails (whatever its kind: write, seek or flush). No call panics - neither then nor later, incl. the implicit finalisation on drop -, the failure is reported by some call, and a failure-free run yields exactly the reference archive.
// @h prop=C11 tier=thorough t=1500 mem=14 name=c11_writer_fault_k018 uws="fn:^std::ptr::drop_glue::<:2;fn:Drop>::drop$:2;fn:drop_box_raw:2;fn:^std::mem::drop::<:2"
c11_fault_at!(c11_writer_fault_k018, 18);
/// C11 writer scenario (start_file a, write, start_file b, write, finish, drop): the sink's I/O call number 19 fails (whatever its kind: write, seek or flush). No call panics - neither then nor later, incl. the implicit finalisation on drop -, the failure is reported by some call, and a failure-free run yields exactly the reference archive.
// @h prop=C11 tier=thorough t=1500 mem=14 name=c11_writer_fault_k019 uws="fn:^std::ptr::drop_glue::<:2;fn:Drop>::drop$:2;fn:drop_box_raw:2;fn:^std::mem::drop::<:2"
c11_fault_at!(c11_writer_fault_k019, 19);
/// C11 writer scenario (start_file a, write, start_file b, write, finish, drop): the sink's I/O call number 20 fails (whatever its kind: write, seek or flush). No call panics - neither then nor later, incl. the implicit finalisation on drop -, the failure is reported by some call, and a failure-free run yields exactly the reference archive.
// @h prop=C11 tier=quick t=1500 mem=14 name=c11_writer_fault_k020 uws="fn:^std::ptr::drop_glue::<:2;fn:Drop>::drop$:2;fn:drop_box_raw:2;fn:^std::mem::drop::<:2"
c11_fault_at!(c11_writer_fault_k020, 20);
/// C11 writer scenario (start_file a, write, start_file b, write, finish, drop): the sink's I/O call number 21 fails (whatever its kind: write, seek or flush). No call panics - neither then nor later, incl. the implicit finalisation on drop -, the failure is reported by some call, and a failure-free run yields exactly the reference archive.
// @h prop=C11 tier=quick t=300 mem=4 name=c11_writer_fault_k021 uws="fn:^std::ptr::drop_glue::<:2;fn:Drop>::drop$:2;fn:drop_box_raw:2;fn:^std::mem::drop::<:2"
c11_fault_at!(c11_writer_fault_k021, 21);
/// C11 writer scenario (start_file a, write, start_file b, write, finish, drop): the sink's I/O call number 22 fails (whatever its kind: write, seek or flush). No call panics - neither then nor later, incl. the implicit finalisation on drop -, the failure is reported by some call, and a failure-free run yields exactly the reference archive.
// @h prop=C11 tier=thorough t=300 mem=4 name=c11_writer_fault_k022 uws="fn:^std::ptr::drop_glue::<:2;fn:Drop>::drop$:2;fn:drop_box_raw:2;fn:^std::mem::drop::<:2"
c11_fault_at!(c11_writer_fault_k022, 22);
/// C11 writer scenario (start_file a, write, start_file b, write, finish, drop): the sink's I/O call number 23 fails (whatever its kind: write, seek or flush). No call panics - neither then nor later, incl. the implicit finalisation on drop -, the failure is reported by some call, and a failure-free run yields exactly the reference archive.
// @h prop=C11 tier=thorough t=300 mem=4 name=c11_writer_fault_k023 uws="fn:^std::ptr::drop_glue::<:2;fn:Drop>::drop$:2;fn:drop_box_raw:2;fn:^std::mem::drop::<:2"
c11_fault_at!(c11_writer_fault_k023, 23);
/// C11 writer scenario (start_file a, write, start_file b, write, finish, drop): the sink's I/O call number 24 fails (whatever its kind: write, seek or flush). No call panics - neither then nor later, incl. the implicit finalisation on drop -, the failure is reported by some call, and a failure-free run yields exactly the reference archive.
// @h prop=C11 tier=thorough t=300 mem=4 name=c11_writer_fault_k024 uws="fn:^std::ptr::drop_glue::<:2;fn:Drop>::drop$:2;fn:drop_box_raw:2;fn:^std::mem::drop::<:2"
c11_fault_at!(c11_writer_fault_k024, 24);
/// C11 writer scenario (start_file a, write, start_file b, write, finish, drop): the sink's I/O call number 25 fails (whatever its kind: write, seek or flush). No call panics - neither then nor later, incl. the implicit finalisation on drop -, the failure is reported by some call, and a failure-free run yields exactly the reference archive.
// @h prop=C11 tier=thorough t=300 mem=4 name=c11_writer_fault_k025 uws="fn:^std::ptr::drop_glue::<:2;fn:Drop>::drop$:2;fn:drop_box_raw:2;fn:^std::mem::drop::<:2"
c11_fault_at!(c11_writer_fault_k025, 25);
/// C11 writer scenario (start_file a, write, start_file b, write, finish, drop): the sink's I/O call number 26 fails (whatever its kind: write, seek or flush). No call panics - neither then nor later, incl. the implicit finalisation on drop -, the failure is reported by some call, and a failure-free run yields exactly the reference archive.
// @h prop=C11 tier=thorough t=300 mem=4 name=c11_writer_fault_k026 uws="fn:^std::ptr::drop_glue::<:2;fn:Drop>::drop$:2;fn:drop_box_raw:2;fn:^std::mem::drop::<:2"
c11_fault_at!(c11_writer_fault_k026, 26);
/// C11 writer scenario (start_file a, write, start_file b, write, finish, drop): the sink's I/O call number 27 fails (whatever its kind: write, seek or flush). No call panics - neither then nor later, incl. the implicit finalisation on drop -, the failure is reported by some call, and a failure-free run yields exactly the reference archive.
// @h prop=C11 tier=thorough t=300 mem=4 name=c11_writer_fault_k027 uws="fn:^std::ptr::drop_glue::<:2;fn:Drop>::drop$:2;fn:drop_box_raw:2;fn:^std::mem::drop::<:2"
c11_fault_at!(c11_writer_fault_k027, 27);
/// C11 writer scenario (start_file a, write, start_file b, write, finish, drop): the sink's I/O call number 28 fails (whatever its kind: write, seek or flush). No call panics - neither then nor later, incl. the implicit finalisation on drop -, the failure is reported by some call, and a failure-free run yields exactly the reference archive.
// @h prop=C11 tier=thorough t=300 mem=4 name=c11_writer_fault_k028 uws="fn:^std::ptr::drop_glue::<:2;fn:Drop>::drop$:2;fn:drop_box_raw:2;fn:^std::mem::drop::<:2"
c11_fault_at!(c11_writer_fault_k028, 28);
/// C11 writer scenario (start_file a, write, start_file b, write, finish, drop): the sink's I/O call number 29 fails (whatever its kind: write, seek or flush). No call panics - neither then nor later, incl. the implicit finalisation on drop -, the failure is reported by some call, and a failure-free run yields exactly the reference archive.
// @h prop=C11 tier=thorough t=300 mem=4 name=c11_writer_fault_k029 uws="fn:^std::ptr::drop_glue::<:2;fn:Drop>::drop$:2;fn:drop_box_raw:2;fn:^std::mem::drop::<:2"
c11_fault_at!(c11_writer_fault_k029, 29);
/// C11 writer scenario (start_file a, write, start_file b, write, finish, drop): the sink's I/O call number 30 fails (whatever its kind: write, seek or flush). No call panics - neither then nor later, incl. the implicit finalisation on drop -, the failure is reported by some call, and a failure-free run yields exactly the reference archive.
// @h prop=C11 tier=thorough t=300 mem=4 name=c11_writer_fault_k030 uws="fn:^std::ptr::drop_glue::<:2;fn:Drop>::drop$:2;fn:drop_box_raw:2;fn:^std::mem::drop::<:2"
c11_fault_at!(c11_writer_fault_k030, 30);
/// C11 writer scenario (start_file a, write, start_file b, write, finish, drop): the sink's I/O call number 31 fails (whatever its kind: write, seek or flush). No call panics - neither then nor later, incl. the implicit finalisation on drop -, the failure is reported by some call, and a failure-free run yields exactly the reference archive.
// @h prop=C11 tier=thorough t=300 mem=4 name=c11_writer_fault_k031 uws="fn:^std::ptr::drop_glue::<:2;fn:Drop>::drop$:2;fn:drop_box_raw:2;fn:^std::mem::drop::<:2"
c11_fault_at!(c11_writer_fault_k031, 31);
/// C11 writer scenario (start_file a, write, start_file b, write, finish, drop): the sink's I/O call number 32 fails (whatever its kind: write, seek or flush). No call panics - neither then nor later, incl. the implicit finalisation on drop -, the failure is reported by some call, and a failure-free run yields exactly the reference archive.
// @h prop=C11 tier=thorough t=300 mem=4 name=c11_writer_fault_k032 uws="fn:^std::ptr::drop_glue::<:2;fn:Drop>::drop$:2;fn:drop_box_raw:2;fn:^std::mem::drop::<:2"
c11_fault_at!(c11_writer_fault_k032, 32);
/// C11 writer scenario (start_file a, write, start_file b, write, finish, drop): the sink's I/O call number 33 fails (whatever its kind: write, seek or flush). No call panics - neither then nor later, incl. the implicit finalisation on drop -, the failure is reported by some call, and a failure-free run yields exactly the reference archive.
// @h prop=C11 tier=thorough t=300 mem=4 name=c11_writer_fault_k033 uws="fn:^std::ptr::drop_glue::<:2;fn:Drop>::drop$:2;fn:drop_box_raw:2;fn:^std::mem::drop::<:2"
c11_fault_at!(c11_writer_fault_k033, 33);
/// C11 writer scenario (start_file a, write, start_file b, write, finish, drop): the sink's I/O call number 34 fails (whatever its kind: write, seek or flush). No call panics - neither then nor later, incl. the implicit finalisation on drop -, the failure is reported by some call, and a failure-free run yields exactly the reference archive.
// @h prop=C11 tier=quick t=300 mem=4 name=c11_writer_fault_k034 uws="fn:^std::ptr::drop_glue::<:2;fn:Drop>::drop$:2;fn:drop_box_raw:2;fn:^std::mem::drop::<:2"
c11_fault_at!(c11_writer_fault_k034, 34);
/// C11 writer scenario (start_file a, write, start_file b, write, finish, drop): the sink's I/O call number 35 fails (whatever its kind: write, seek or flush). No call panics - neither then nor later, incl. the implicit finalisation on drop -, the failure is reported by some call, and a failure-free run yields exactly the reference archive.
// @h prop=C11 tier=quick t=300 mem=4 name=c11_writer_fault_k035 uws="fn:^std::ptr::drop_glue::<:2;fn:Drop>::drop$:2;fn:drop_box_raw:2;fn:^std::mem::drop::<:2"
c11_fault_at!(c11_writer_fault_k035, 35);
/// C11 writer scenario (start_file a, write, start_file b, write, finish, drop): the sink's I/O call number 36 fails (whatever its kind: write, seek or flush). No call panics - neither then nor later, incl. the implicit finalisation on drop -, the failure is reported by some call, and a failure-free run yields exactly the reference archive.
// @h prop=C11 tier=quick t=300 mem=4 name=c11_writer_fault_k036 uws="fn:^std::ptr::drop_glue::<:2;fn:Drop>::drop$:2;fn:drop_box_raw:2;fn:^std::mem::drop::<:2"
c11_fault_at!(c11_writer_fault_k036, 36);
/// C11 writer scenario (start_file a, write, start_file b, write, finish, drop): the sink's I/O call number 37 fails (whatever its kind: write, seek or flush). No call panics - neither then nor later, incl. the implicit finalisation on drop -, the failure is reported by some call, and a failure-free run yields exactly the reference archive.
// @h prop=C11 tier=quick t=300 mem=4 name=c11_writer_fault_k037 uws="fn:^std::ptr::drop_glue::<:2;fn:Drop>::drop$:2;fn:drop_box_raw:2;fn:^std::mem::drop::<:2"
c11_fault_at!(c11_writer_fault_k037, 37);
/// C11 writer scenario (start_file a, write, start_file b, write, finish, drop): the sink's I/O call number 38 fails (whatever its kind: write, seek or flush). No call panics - neither then nor later, incl. the implicit finalisation on drop -, the failure is reported by some call, and a failure-free run yields exactly the reference archive.
// @h prop=C11 tier=thorough t=1500 mem=14 name=c11_writer_fault_k038 uws="fn:^std::ptr::drop_glue::<:2;fn:Drop>::drop$:2;fn:drop_box_raw:2;fn:^std::mem::drop::<:2"
c11_fault_at!(c11_writer_fault_k038, 38);
/// C11 writer scenario (start_file a, write, start_file b, write, finish, drop): the sink's I/O call number 39 fails (whatever its kind: write, seek or flush). No call panics - neither then nor later, incl. the implicit finalisation on drop -, the failure is reported by some call, and a failure-free run yields exactly the reference archive.
// @h prop=C11 tier=thorough t=1500 mem=14 name=c11_writer_fault_k039 uws="fn:^std::ptr::drop_glue::<:2;fn:Drop>::drop$:2;fn:drop_box_raw:2;fn:^std::mem::drop::<:2"
c11_fault_at!(c11_writer_fault_k039, 39);
/// C11 writer scenario (start_file a, write, start_file b, write, finish, drop): the sink's I/O call number 40 fails (whatever its kind: write, seek or flush). No call panics - neither then nor later, incl. the implicit finalisation on drop -, the failure is reported by some call, and a failure-free run yields exactly the reference archive.
// @h prop=C11 tier=thorough t=1500 mem=14 name=c11_writer_fault_k040 uws="fn:^std::ptr::drop_glue::<:2;fn:Drop>::drop$:2;fn:drop_box_raw:2;fn:^std::mem::drop::<:2"
c11_fault_at!(c11_writer_fault_k040, 40);
/// C11 writer scenario (start_file a, write, start_file b, write, finish, drop): the sink's I/O call number 41 fails (whatever its kind: write, seek or flush). No call panics - neither then nor later, incl. the implicit finalisation on drop -, the failure is reported by some call, and a failure-free run yields exactly the reference archive.
// @h prop=C11 tier=thorough t=1500 mem=14 name=c11_writer_fault_k041 uws="fn:^std::ptr::drop_glue::<:2;fn:Drop>::drop$:2;fn:drop_box_raw:2;fn:^std::mem::drop::<:2"
c11_fault_at!(c11_writer_fault_k041, 41);
/// C11 writer scenario (start_file a, write, start_file b, write, finish, drop): the sink's I/O call number 42 fails (whatever its kind: write, seek or flush). No call panics - neither then nor later, incl. the implicit finalisation on drop -, the failure is reported by some call, and a failure-free run yields exactly the reference archive.
// @h prop=C11 tier=quick t=300 mem=4 name=c11_writer_fault_k042 uws="fn:^std::ptr::drop_glue::<:2;fn:Drop>::drop$:2;fn:drop_box_raw:2;fn:^std::mem::drop::<:2"
c11_fault_at!(c11_writer_fault_k042, 42);
/// C11 writer scenario (start_file a, write, start_file b, write, finish, drop): the sink's I/O call number 43 fails (whatever its kind: write, seek or flush). No call panics - neither then nor later, incl. the implicit finalisation on drop -, the failure is reported by some call, and a failure-free run yields exactly the reference archive.
// @h prop=C11 tier=thorough t=300 mem=4 name=c11_writer_fault_k043 uws="fn:^std::ptr::drop_glue::<:2;fn:Drop>::drop$:2;fn:drop_box_raw:2;fn:^std::mem::drop::<:2"
c11_fault_at!(c11_writer_fault_k043, 43);
/// C11 writer scenario (start_file a, write, start_file b, write, finish, drop): the sink's I/O call number 44 fails (whatever its kind: write, seek or flush). No call panics - neither then nor later, incl. the implicit finalisation on drop -, the failure is reported by some call, and a failure-free run yields exactly the reference archive.
// @h prop=C11 tier=thorough t=300 mem=4 name=c11_writer_fault_k044 uws="fn:^std::ptr::drop_glue::<:2;fn:Drop>::drop$:2;fn:drop_box_raw:2;fn:^std::mem::drop::<:2"
c11_fault_at!(c11_writer_fault_k044, 44);
/// C11 writer scenario (start_file a, write, start_file b, write, finish, drop): the sink's I/O call number 45 fails (whatever its kind: write, seek or flush). No call panics - neither then nor later, incl. the implicit finalisation on drop -, the failure is reported by some call, and a failure-free run yields exactly the reference archive.
// @h prop=C11 tier=thorough t=300 mem=4 name=c11_writer_fault_k045 uws="fn:^std::ptr::drop_glue::<:2;fn:Drop>::drop$:2;fn:drop_box_raw:2;fn:^std::mem::drop::<:2"
c11_fault_at!(c11_writer_fault_k045, 45);
/// C11 writer scenario (start_file a, write, start_file b, write, finish, drop): the sink's I/O call number 46 fails (whatever its kind: write, seek or flush). No call panics - neither then nor later, incl. the implicit finalisation on drop -, the failure is reported by some call, and a failure-free run yields exactly the reference archive.
// @h prop=C11 tier=thorough t=300 mem=4 name=c11_writer_fault_k046 uws="fn:^std::ptr::drop_glue::<:2;fn:Drop>::drop$:2;fn:drop_box_raw:2;fn:^std::mem::drop::<:2"
c11_fault_at!(c11_writer_fault_k046, 46);
/// C11 writer scenario (start_file a, write, start_file b, write, finish, drop): the sink's I/O call number 47 fails (whatever its kind: write, seek or flush). No call panics - neither then nor later, incl. the implicit finalisation on drop -, the failure is reported by some call, and a failure-free run yields exactly the reference archive.
// @h prop=C11 tier=thorough t=300 mem=4 name=c11_writer_fault_k047 uws="fn:^std::ptr::drop_glue::<:2;fn:Drop>::drop$:2;fn:drop_box_raw:2;fn:^std::mem::drop::<:2"
c11_fault_at!(c11_writer_fault_k047, 47);
/// C11 writer scenario (start_file a, write, start_file b, write, finish, drop): the sink's I/O call number 48 fails (whatever its kind: write, seek or flush). No call panics - neither then nor later, incl. the implicit finalisation on drop -, the failure is reported by some call, and a failure-free run yields exactly the reference archive.
// @h prop=C11 tier=thorough t=300 mem=4 name=c11_writer_fault_k048 uws="fn:^std::ptr::drop_glue::<:2;fn:Drop>::drop$:2;fn:drop_box_raw:2;fn:^std::mem::drop::<:2"
c11_fault_at!(c11_writer_fault_k048, 48);
/// C11 writer scenario (start_file a, write, start_file b, write, finish, drop): the sink's I/O call number 49 fails (whatever its kind: write, seek or flush). No call panics - neither then nor later, incl. the implicit finalisation on drop -, the failure is reported by some call, and a failure-free run yields exactly the reference archive.
// @h prop=C11 tier=thorough t=300 mem=4 name=c11_writer_fault_k049 uws="fn:^std::ptr::drop_glue::<:2;fn:Drop>::drop$:2;fn:drop_box_raw:2;fn:^std::mem::drop::<:2"
c11_fault_at!(c11_writer_fault_k049, 49);
/// C11 writer scenario (start_file a, write, start_file b, write, finish, drop): the sink's I/O call number 50 fails (whatever its kind: write, seek or flush). No call panics - neither then nor later, incl. the implicit finalisation on drop -, the failure is reported by some call, and a failure-free run yields exactly the reference archive.
// @h prop=C11 tier=thorough t=300 mem=4 name=c11_writer_fault_k050 uws="fn:^std::ptr::drop_glue::<:2;fn:Drop>::drop$:2;fn:drop_box_raw:2;fn:^std::mem::drop::<:2"
c11_fault_at!(c11_writer_fault_k050, 50);
/// C11 writer scenario (start_file a, write, start_file b, write, finish, drop): the sink's I/O call number 51 fails (whatever its kind: write, seek or flush). No call panics - neither then nor later, incl. the implicit finalisation on drop -, the failure is reported by some call, and a failure-free run yields exactly the reference archive.
// @h prop=C11 tier=thorough t=300 mem=4 name=c11_writer_fault_k051 uws="fn:^std::ptr::drop_glue::<:2;fn:Drop>::drop$:2;fn:drop_box_raw:2;fn:^std::mem::drop::<:2"
c11_fault_at!(c11_writer_fault_k051, 51);
/// C11 writer scenario (start_file a, write, start_file b, write, finish, drop): the sink's I/O call number 52 fails (whatever its kind: write, seek or flush). No call panics - neither then nor later, incl. the implicit finalisation on drop -, the failure is reported by some call, and a failure-free run yields exactly the reference archive.
// @h prop=C11 tier=thorough t=300 mem=4 name=c11_writer_fault_k052 uws="fn:^std::ptr::drop_glue::<:2;fn:Drop>::drop$:2;fn:drop_box_raw:2;fn:^std::mem::drop::<:2"
c11_fault_at!(c11_writer_fault_k052, 52);
/// C11 writer scenario (start_file a, write, start_file b, write, finish, drop): the sink's I/O call number 53 fails (whatever its kind: write, seek or flush). No call panics - neither then nor later, incl. the implicit finalisation on drop -, the failure is reported by some call, and a failure-free run yields exactly the reference archive.
// @h prop=C11 tier=thorough t=300 mem=4 name=c11_writer_fault_k053 uws="fn:^std::ptr::drop_glue::<:2;fn:Drop>::drop$:2;fn:drop_box_raw:2;fn:^std::mem::drop::<:2"
c11_fault_at!(c11_writer_fault_k053, 53);
/// C11 writer scenario (start_file a, write, start_file b, write, finish, drop): the sink's I/O call number 54 fails (whatever its kind: write, seek or flush). No call panics - neither then nor later, incl. the implicit finalisation on drop -, the failure is reported by some call, and a failure-free run yields exactly the reference archive.
// @h prop=C11 tier=thorough t=300 mem=4 name=c11_writer_fault_k054 uws="fn:^std::ptr::drop_glue::<:2;fn:Drop>::drop$:2;fn:drop_box_raw:2;fn:^std::mem::drop::<:2"
c11_fault_at!(c11_writer_fault_k054, 54);
/// C11 writer scenario (start_file a, write, start_file b, write, finish, drop): the sink's I/O call number 55 fails (whatever its kind: write, seek or flush). No call panics - neither then nor later, incl. the implicit finalisation on drop -, the failure is reported by some call, and a failure-free run yields exactly the reference archive.
// @h prop=C11 tier=thorough t=300 mem=4 name=c11_writer_fault_k055 uws="fn:^std::ptr::drop_glue::<:2;fn:Drop>::drop$:2;fn:drop_box_raw:2;fn:^std::mem::drop::<:2"
c11_fault_at!(c11_writer_fault_k055, 55);
/// C11 writer scenario (start_file a, write, start_file b, write, finish, drop): the sink's I/O call number 56 fails (whatever its kind: write, seek or flush). No call panics - neither then nor later, incl. the implicit finalisation on drop -, the failure is reported by some call, and a failure-free run yields exactly the reference archive.
// @h prop=C11 tier=thorough t=300 mem=4 name=c11_writer_fault_k056 uws="fn:^std::ptr::drop_glue::<:2;fn:Drop>::drop$:2;fn:drop_box_raw:2;fn:^std::mem::drop::<:2"
c11_fault_at!(c11_writer_fault_k056, 56);
/// C11 writer scenario (start_file a, write, start_file b, write, finish, drop): the sink's I/O call number 57 fails (whatever its kind: write, seek or flush). No call panics - neither then nor later, incl. the implicit finalisation on drop -, the failure is reported by some call, and a failure-free run yields exactly the reference archive.
// @h prop=C11 tier=thorough t=300 mem=4 name=c11_writer_fault_k057 uws="fn:^std::ptr::drop_glue::<:2;fn:Drop>::drop$:2;fn:drop_box_raw:2;fn:^std::mem::drop::<:2"
c11_fault_at!(c11_writer_fault_k057, 57);
/// C11 writer scenario (start_file a, write, start_file b, write, finish, drop): the sink's I/O call number 58 fails (whatever its kind: write, seek or flush). No call panics - neither then nor later, incl. the implicit finalisation on drop -, the failure is reported by some call, and a failure-free run yields exactly the reference archive.
// @h prop=C11 tier=thorough t=300 mem=4 name=c11_writer_fault_k058 uws="fn:^std::ptr::drop_glue::<:2;fn:Drop>::drop$:2;fn:drop_box_raw:2;fn:^std::mem::drop::<:2"
c11_fault_at!(c11_writer_fault_k058, 58);
/// C11 writer scenario (start_file a, write, start_file b, write, finish, drop): the sink's I/O call number 59 fails (whatever its kind: write, seek or flush). No call panics - neither then nor later, incl. the implicit finalisation on drop -, the failure is reported by some call, and a failure-free run yields exactly the reference archive.
// @h prop=C11 tier=thorough t=300 mem=4 name=c11_writer_fault_k059 uws="fn:^std::ptr::drop_glue::<:2;fn:Drop>::drop$:2;fn:drop_box_raw:2;fn:^std::mem::drop::<:2"
c11_fault_at!(c11_writer_fault_k059, 59);
/// C11 writer scenario (start_file a, write, start_file b, write, finish, drop): the sink's I/O call number 60 fails (whatever its kind: write, seek or flush). No call panics - neither then nor later, incl. the implicit finalisation on drop -, the failure is reported by some call, and a failure-free run yields exactly the reference archive.
// @h prop=C11 tier=quick t=300 mem=4 name=c11_writer_fault_k060 uws="fn:^std::ptr::drop_glue::<:2;fn:Drop>::drop$:2;fn:drop_box_raw:2;fn:^std::mem::drop::<:2"
c11_fault_at!(c11_writer_fault_k060, 60);
/// C11 writer scenario (start_file a, write, start_file b, write, finish, drop): the sink's I/O call number 61 fails (whatever its kind: write, seek or flush). No call panics - neither then nor later, incl. the implicit finalisation on drop -, the failure is reported by some call, and a failure-free run yields exactly the reference archive.
// @h prop=C11 tier=thorough t=300 mem=4 name=c11_writer_fault_k061 uws="fn:^std::ptr::drop_glue::<:2;fn:Drop>::drop$:2;fn:drop_box_raw:2;fn:^std::mem::drop::<:2"
c11_fault_at!(c11_writer_fault_k061, 61);
/// C11 writer scenario (start_file a, write, start_file b, write, finish, drop): the sink's I/O call number 62 fails (whatever its kind: write, seek or flush). No call panics - neither then nor later, incl. the implicit finalisation on drop -, the failure is reported by some call, and a failure-free run yields exactly the reference archive.
// @h prop=C11 tier=thorough t=300 mem=4 name=c11_writer_fault_k062 uws="fn:^std::ptr::drop_glue::<:2;fn:Drop>::drop$:2;fn:drop_box_raw:2;fn:^std::mem::drop::<:2"
c11_fault_at!(c11_writer_fault_k062, 62);
/// C11 writer scenario (start_file a, write, start_file b, write, finish, drop): the sink's I/O call number 63 fails (whatever its kind: write, seek or flush). No call panics - neither then nor later, incl. the implicit finalisation on drop -, the failure is reported by some call, and a failure-free run yields exactly the reference archive.
// @h prop=C11 tier=thorough t=300 mem=4 name=c11_writer_fault_k063 uws="fn:^std::ptr::drop_glue::<:2;fn:Drop>::drop$:2;fn:drop_box_raw:2;fn:^std::mem::drop::<:2"
c11_fault_at!(c11_writer_fault_k063, 63);
/// C11 writer scenario (start_file a, write, start_file b, write, finish, drop): the sink's I/O call number 64 fails (whatever its kind: write, seek or flush). No call panics - neither then nor later, incl. the implicit finalisation on drop -, the failure is reported by some call, and a failure-free run yields exactly the reference archive.
// @h prop=C11 tier=thorough t=300 mem=4 name=c11_writer_fault_k064 uws="fn:^std::ptr::drop_glue::<:2;fn:Drop>::drop$:2;fn:drop_box_raw:2;fn:^std::mem::drop::<:2"
c11_fault_at!(c11_writer_fault_k064, 64);
/// C11 writer scenario (start_file a, write, start_file b, write, finish, drop): the sink's I/O call number 65 fails (whatever its kind: write, seek or flush). No call panics - neither then nor later, incl. the implicit finalisation on drop -, the failure is reported by some call, and a failure-free run yields exactly the reference archive.
// @h prop=C11 tier=thorough t=300 mem=4 name=c11_writer_fault_k065 uws="fn:^std::ptr::drop_glue::<:2;fn:Drop>::drop$:2;fn:drop_box_raw:2;fn:^std::mem::drop::<:2"
c11_fault_at!(c11_writer_fault_k065, 65);
/// C11 writer scenario (start_file a, write, start_file b, write, finish, drop): the sink's I/O call number 66 fails (whatever its kind: write, seek or flush). No call panics - neither then nor later, incl. the implicit finalisation on drop -, the failure is reported by some call, and a failure-free run yields exactly the reference archive.
// @h prop=C11 tier=thorough t=300 mem=4 name=c11_writer_fault_k066 uws="fn:^std::ptr::drop_glue::<:2;fn:Drop>::drop$:2;fn:drop_box_raw:2;fn:^std::mem::drop::<:2"
c11_fault_at!(c11_writer_fault_k066, 66);
/// C11 writer scenario (start_file a, write, start_file b, write, finish, drop): the sink's I/O call number 67 fails (whatever its kind: write, seek or flush). No call panics - neither then nor later, incl. the implicit finalisation on drop -, the failure is reported by some call, and a failure-free run yields exactly the reference archive.
// @h prop=C11 tier=thorough t=300 mem=4 name=c11_writer_fault_k067 uws="fn:^std::ptr::drop_glue::<:2;fn:Drop>::drop$:2;fn:drop_box_raw:2;fn:^std::mem::drop::<:2"
c11_fault_at!(c11_writer_fault_k067, 67);
/// C11 writer scenario (start_file a, write, start_file b, write, finish, drop): the sink's I/O call number 68 fails (whatever its kind: write, seek or flush). No call panics - neither then nor later, incl. the implicit finalisation on drop -, the failure is reported by some call, and a failure-free run yields exactly the reference archive.
// @h prop=C11 tier=thorough t=300 mem=4 name=c11_writer_fault_k068 uws="fn:^std::ptr::drop_glue::<:2;fn:Drop>::drop$:2;fn:drop_box_raw:2;fn:^std::mem::drop::<:2"
c11_fault_at!(c11_writer_fault_k068, 68);
/// C11 writer scenario (start_file a, write, start_file b, write, finish, drop): the sink's I/O call number 69 fails (whatever its kind: write, seek or flush). No call panics - neither then nor later, incl. the implicit finalisation on drop -, the failure is reported by some call, and a failure-free run yields exactly the reference archive.
// @h prop=C11 tier=thorough t=300 mem=4 name=c11_writer_fault_k069 uws="fn:^std::ptr::drop_glue::<:2;fn:Drop>::drop$:2;fn:drop_box_raw:2;fn:^std::mem::drop::<:2"
c11_fault_at!(c11_writer_fault_k069, 69);
/// C11 writer scenario (start_file a, write, start_file b, write, finish, drop): the sink's I/O call number 70 fails (whatever its kind: write, seek or flush). No call panics - neither then nor later, incl. the implicit finalisation on drop -, the failure is reported by some call, and a failure-free run yields exactly the reference archive.
// @h prop=C11 tier=thorough t=300 mem=4 name=c11_writer_fault_k070 uws="fn:^std::ptr::drop_glue::<:2;fn:Drop>::drop$:2;fn:drop_box_raw:2;fn:^std::mem::drop::<:2"
c11_fault_at!(c11_writer_fault_k070, 70);
/// C11 writer scenario (start_file a, write, start_file b, write, finish, drop): the sink's I/O call number 71 fails (whatever its kind: write, seek or flush). No call panics - neither then nor later, incl. the implicit finalisation on drop -, the failure is reported by some call, and a failure-free run yields exactly the reference archive.
// @h prop=C11 tier=thorough t=300 mem=4 name=c11_writer_fault_k071 uws="fn:^std::ptr::drop_glue::<:2;fn:Drop>::drop$:2;fn:drop_box_raw:2;fn:^std::mem::drop::<:2"
c11_fault_at!(c11_writer_fault_k071, 71);
/// C11 writer scenario (start_file a, write, start_file b, write, finish, drop): the sink's I/O call number 72 fails (whatever its kind: write, seek or flush). No call panics - neither then nor later, incl. the implicit finalisation on drop -, the failure is reported by some call, and a failure-free run yields exactly the reference archive.
// @h prop=C11 tier=thorough t=300 mem=4 name=c11_writer_fault_k072 uws="fn:^std::ptr::drop_glue::<:2;fn:Drop>::drop$:2;fn:drop_box_raw:2;fn:^std::mem::drop::<:2"
c11_fault_at!(c11_writer_fault_k072, 72);
/// C11 writer scenario (start_file a, write, start_file b, write, finish, drop): the sink's I/O call number 73 fails (whatever its kind: write, seek or flush). No call panics - neither then nor later, incl. the implicit finalisation on drop -, the failure is reported by some call, and a failure-free run yields exactly the reference archive.
// @h prop=C11 tier=thorough t=300 mem=4 name=c11_writer_fault_k073 uws="fn:^std::ptr::drop_glue::<:2;fn:Drop>::drop$:2;fn:drop_box_raw:2;fn:^std::mem::drop::<:2"
c11_fault_at!(c11_writer_fault_k073, 73);
/// C11 writer scenario (start_file a, write, start_file b, write, finish, drop): the sink's I/O call number 74 fails (whatever its kind: write, seek or flush). No call panics - neither then nor later, incl. the implicit finalisation on drop -, the failure is reported by some call, and a failure-free run yields exactly the reference archive.
// @h prop=C11 tier=thorough t=300 mem=4 name=c11_writer_fault_k074 uws="fn:^std::ptr::drop_glue::<:2;fn:Drop>::drop$:2;fn:drop_box_raw:2;fn:^std::mem::drop::<:2"
c11_fault_at!(c11_writer_fault_k074, 74);
/// C11 writer scenario (start_file a, write, start_file b, write, finish, drop): the sink's I/O call number 75 fails (whatever its kind: write, seek or flush). No call panics - neither then nor later, incl. the implicit finalisation on drop -, the failure is reported by some call, and a failure-free run yields exactly the reference archive.
// @h prop=C11 tier=thorough t=300 mem=4 name=c11_writer_fault_k075 uws="fn:^std::ptr::drop_glue::<:2;fn:Drop>::drop$:2;fn:drop_box_raw:2;fn:^std::mem::drop::<:2"
c11_fault_at!(c11_writer_fault_k075, 75);
/// C11 writer scenario (start_file a, write, start_file b, write, finish, drop): the sink's I/O call number 76 fails (whatever its kind: write, seek or flush). No call panics - neither then nor later, incl. the implicit finalisation on drop -, the failure is reported by some call, and a failure-free run yields exactly the reference archive.
// @h prop=C11 tier=thorough t=300 mem=4 name=c11_writer_fault_k076 uws="fn:^std::ptr::drop_glue::<:2;fn:Drop>::drop$:2;fn:drop_box_raw:2;fn:^std::mem::drop::<:2"
c11_fault_at!(c11_writer_fault_k076, 76);
/// C11 writer scenario (start_file a, write, start_file b, write, finish, drop): the sink's I/O call number 77 fails (whatever its kind: write, seek or flush). No call panics - neither then nor later, incl. the implicit finalisation on drop -, the failure is reported by some call, and a failure-free run yields exactly the reference archive.
// @h prop=C11 tier=thorough t=300 mem=4 name=c11_writer_fault_k077 uws="fn:^std::ptr::drop_glue::<:2;fn:Drop>::drop$:2;fn:drop_box_raw:2;fn:^std::mem::drop::<:2"
c11_fault_at!(c11_writer_fault_k077, 77);
/// C11 writer scenario (start_file a, write, start_file b, write, finish, drop): the sink's I/O call number 78 fails (whatever its kind: write, seek or flush). No call panics - neither then nor later, incl. the implicit finalisation on drop -, the failure is reported by some call, and a failure-free run yields exactly the reference archive.
// @h prop=C11 tier=thorough t=300 mem=4 name=c11_writer_fault_k078 uws="fn:^std::ptr::drop_glue::<:2;fn:Drop>::drop$:2;fn:drop_box_raw:2;fn:^std::mem::drop::<:2"
c11_fault_at!(c11_writer_fault_k078, 78);
/// C11 writer scenario (start_file a, write, start_file b, write, finish, drop): the sink's I/O call number 79 fails (whatever its kind: write, seek or flush). No call panics - neither then nor later, incl. the implicit finalisation on drop -, the failure is reported by some call, and a failure-free run yields exactly the reference archive.
// @h prop=C11 tier=thorough t=300 mem=4 name=c11_writer_fault_k079 uws="fn:^std::ptr::drop_glue::<:2;fn:Drop>::drop$:2;fn:drop_box_raw:2;fn:^std::mem::drop::<:2"
c11_fault_at!(c11_writer_fault_k079, 79);
/// C11 writer scenario (start_file a, write, start_file b, write, finish, drop): the sink's I/O call number 80 fails (whatever its kind: write, seek or flush). No call panics - neither then nor later, incl. the implicit finalisation on drop -, the failure is reported by some call, and a failure-free run yields exactly the reference archive.
// @h prop=C11 tier=thorough t=300 mem=4 name=c11_writer_fault_k080 uws="fn:^std::ptr::drop_glue::<:2;fn:Drop>::drop$:2;fn:drop_box_raw:2;fn:^std::mem::drop::<:2"
c11_fault_at!(c11_writer_fault_k080, 80);
/// C11 writer scenario (start_file a, write, start_file b, write, finish, drop): the sink's I/O call number 81 fails (whatever its kind: write, seek or flush). No call panics - neither then nor later, incl. the implicit finalisation on drop -, the failure is reported by some call, and a failure-free run yields exactly the reference archive.
// @h prop=C11 tier=thorough t=300 mem=4 name=c11_writer_fault_k081 uws="fn:^std::ptr::drop_glue::<:2;fn:Drop>::drop$:2;fn:drop_box_raw:2;fn:^std::mem::drop::<:2"
c11_fault_at!(c11_writer_fault_k081, 81);
/// C11 writer scenario (start_file a, write, start_file b, write, finish, drop): the sink's I/O call number 82 fails (whatever its kind: write, seek or flush). No call panics - neither then nor later, incl. the implicit finalisation on drop -, the failure is reported by some call, and a failure-free run yields exactly the reference archive.
// @h prop=C11 tier=thorough t=300 mem=4 name=c11_writer_fault_k082 uws="fn:^std::ptr::drop_glue::<:2;fn:Drop>::drop$:2;fn:drop_box_raw:2;fn:^std::mem::drop::<:2"
c11_fault_at!(c11_writer_fault_k082, 82);
/// C11 writer scenario (start_file a, write, start_file b, write, finish, drop): the sink's I/O call number 83 fails (whatever its kind: write, seek or flush). No call panics - neither then nor later, incl. the implicit finalisation on drop -, the failure is reported by some call, and a failure-free run yields exactly the reference archive.
// @h prop=C11 tier=thorough t=300 mem=4 name=c11_writer_fault_k083 uws="fn:^std::ptr::drop_glue::<:2;fn:Drop>::drop$:2;fn:drop_box_raw:2;fn:^std::mem::drop::<:2"
c11_fault_at!(c11_writer_fault_k083, 83);
/// C11 writer scenario (start_file a, write, start_file b, write, finish, drop): the sink's I/O call number 84 fails (whatever its kind: write, seek or flush). No call panics - neither then nor later, incl. the implicit finalisation on drop -, the failure is reported by some call, and a failure-free run yields exactly the reference archive.
// @h prop=C11 tier=thorough t=300 mem=4 name=c11_writer_fault_k084 uws="fn:^std::ptr::drop_glue::<:2;fn:Drop>::drop$:2;fn:drop_box_raw:2;fn:^std::mem::drop::<:2"
c11_fault_at!(c11_writer_fault_k084, 84);
/// C11 writer scenario (start_file a, write, start_file b, write, finish, drop): the sink's I/O call number 85 fails (whatever its kind: write, seek or flush). No call panics - neither then nor later, incl. the implicit finalisation on drop -, the failure is reported by some call, and a failure-free run yields exactly the reference archive.
// @h prop=C11 tier=thorough t=300 mem=4 name=c11_writer_fault_k085 uws="fn:^std::ptr::drop_glue::<:2;fn:Drop>::drop$:2;fn:drop_box_raw:2;fn:^std::mem::drop::<:2"
c11_fault_at!(c11_writer_fault_k085, 85);
/// C11 writer scenario (start_file a, write, start_file b, write, finish, drop): the sink's I/O call number 86 fails (whatever its kind: write, seek or flush). No call panics - neither then nor later, incl. the implicit finalisation on drop -, the failure is reported by some call, and a failure-free run yields exactly the reference archive.
// @h prop=C11 tier=thorough t=300 mem=4 name=c11_writer_fault_k086 uws="fn:^std::ptr::drop_glue::<:2;fn:Drop>::drop$:2;fn:drop_box_raw:2;fn:^std::mem::drop::<:2"
c11_fault_at!(c11_writer_fault_k086, 86);
/// C11 writer scenario (start_file a, write, start_file b, write, finish, drop): the sink's I/O call number 87 fails (whatever its kind: write, seek or flush). No call panics - neither then nor later, incl. the implicit finalisation on drop -, the failure is reported by some call, and a failure-free run yields exactly the reference archive.
// @h prop=C11 tier=thorough t=300 mem=4 name=c11_writer_fault_k087 uws="fn:^std::ptr::drop_glue::<:2;fn:Drop>::drop$:2;fn:drop_box_raw:2;fn:^std::mem::drop::<:2"
c11_fault_at!(c11_writer_fault_k087, 87);
/// C11 writer scenario (start_file a, write, start_file b, write, finish, drop): the sink's I/O call number 88 fails (whatever its kind: write, seek or flush). No call panics - neither then nor later, incl. the implicit finalisation on drop -, the failure is reported by some call, and a failure-free run yields exactly the reference archive.
// @h prop=C11 tier=quick t=300 mem=4 name=c11_writer_fault_k088 uws="fn:^std::ptr::drop_glue::<:2;fn:Drop>::drop$:2;fn:drop_box_raw:2;fn:^std::mem::drop::<:2"
c11_fault_at!(c11_writer_fault_k088, 88);
/// C11 writer scenario (start_file a, write, start_file b, write, finish, drop): the sink's I/O call number 89 fails (whatever its kind: write, seek or flush). No call panics - neither then nor later, incl. the implicit finalisation on drop -, the failure is reported by some call, and a failure-free run yields exactly the reference archive.
// @h prop=C11 tier=thorough t=300 mem=4 name=c11_writer_fault_k089 uws="fn:^std::ptr::drop_glue::<:2;fn:Drop>::drop$:2;fn:drop_box_raw:2;fn:^std::mem::drop::<:2"
c11_fault_at!(c11_writer_fault_k089, 89);
/// C11 writer scenario (start_file a, write, start_file b, write, finish, drop): the sink's I/O call number 90 fails (whatever its kind: write, seek or flush). No call panics - neither then nor later, incl. the implicit finalisation on drop -, the failure is reported by some call, and a failure-free run yields exactly the reference archive.
// @h prop=C11 tier=thorough t=300 mem=4 name=c11_writer_fault_k090 uws="fn:^std::ptr::drop_glue::<:2;fn:Drop>::drop$:2;fn:drop_box_raw:2;fn:^std::mem::drop::<:2"
c11_fault_at!(c11_writer_fault_k090, 90);
/// C11 writer scenario (start_file a, write, start_file b, write, finish, drop): the sink's I/O call number 91 fails (whatever its kind: write, seek or flush). No call panics - neither then nor later, incl. the implicit finalisation on drop -, the failure is reported by some call, and a failure-free run yields exactly the reference archive.
// @h prop=C11 tier=thorough t=300 mem=4 name=c11_writer_fault_k091 uws="fn:^std::ptr::drop_glue::<:2;fn:Drop>::drop$:2;fn:drop_box_raw:2;fn:^std::mem::drop::<:2"
c11_fault_at!(c11_writer_fault_k091, 91);
/// C11 writer scenario (start_file a, write, start_file b, write, finish, drop): no I/O call fails (index beyond the scenario): the failure-free reference run. No call panics - neither then nor later, incl. the implicit finalisation on drop -, the failure is reported by some call, and a failure-free run yields exactly the reference archive.
// @h prop=C11 tier=quick t=300 mem=4 name=c11_writer_fault_k200 uws="fn:^std::ptr::drop_glue::<:2;fn:Drop>::drop$:2;fn:drop_box_raw:2;fn:^std::mem::drop::<:2"
c11_fault_at!(c11_writer_fault_k200, 200);

// =============================================================================================
// C13 append, compositional: (a) what new_append re-hydrates from an existing archive,
// (b) what the writer does from exactly such a state. A Result that merges Ok and Err paths
// makes every length read back from it non-constant for CBMC's symbolic execution (every later
// loop is then unrolled to the bound), so running parse + write in one query does not finish
// within the caps; (a) asserts everything (b) assumes.
// =============================================================================================
macro_rules! c13_open_state {
    ($name:ident, $j:expr) => {
        #[kani::proof]
        #[kani::unwind(10)]
        #[kani::stub(time::OffsetDateTime::now_utc, crate::verif_kit::stub_now_utc)]
        #[kani::stub(crc32fast::Hasher::internal_new_specialized, crate::verif_kit::stub_crc_specialized)]
        #[kani::stub(alloc::fmt::format, crate::verif_kit::stub_format)]
        fn $name() {
            const J: usize = $j;
            const N: usize = 160;
            let mut b = [0u8; N];
            let junk: [u8; J] = kani::any();
            let mut i = 0;
            while i < J {
                b[i] = junk[i];
                i += 1;
            }
            let mut v = EntryVals::any();
            v.flags &= (1 << 3) | (1 << 11);
            kani::assume(v.usize_ != 0xFFFF_FFFF);
            kani::assume(v.method != 99); // method 99 without an AES extra field is not a well-formed entry
            let name: [u8; 1] = [b'o'];
            let payload: [u8; 2] = kani::any();
            let cm: [u8; 2] = kani::any();
            v.csize = 2;
            v.offset = 0;
            v.disk = 0;
            let dd = v.flags & (1 << 3) != 0;
            let p = put_local(&mut b, J, &v, if dd { 0 } else { v.crc }, if dd { 0 } else { 2 }, if dd { 0 } else { v.usize_ }, &name, &[]);
            b[p] = payload[0];
            b[p + 1] = payload[1];
            let cd0 = p + 2;
            let e0 = put_central(&mut b, cd0, &v, &name, &TAILX, &[]);
            let end0 = put_eocd(&mut b, e0, 0, 0, 1, 1, (e0 - cd0) as u32, (cd0 - J) as u32, &cm);
            let mut sink = Sink::<N>::from_array(b, end0);
            let w = match ZipWriter::new_append(sink.handle()) {
                Ok(w) => w,
                Err(e) => {
                    core::mem::forget(e);
                    assert!(false, "well-formed archive refused by new_append");
                    return;
                }
            };
            let w = core::mem::ManuallyDrop::new(w); // never dropped (Drop would run finalize)
            // writer state
            assert!(!w.writing_to_file && !w.writing_to_extra_field && !w.writing_to_central_extra_field_only);
            assert!(w.writing_raw, "the last old entry's header must not be re-patched");
            assert!(matches!(w.inner, GenericZipWriter::Storer(MaybeEncrypted::Unencrypted(_))));
            // positioned on the old central directory, which will be overwritten
            assert_eq!(sink.off, cd0);
            assert_eq!(w.comment.len(), 2);
            assert!(w.comment[0] == cm[0] && w.comment[1] == cm[1]);
            // the re-hydrated entry
            assert_eq!(w.files.len(), 1);
            let f = &w.files[0];
            assert_eq!(f.file_name.len(), 1);
            assert_eq!(f.file_name.as_bytes()[0], b'o');
            #[allow(deprecated)]
            let m = f.compression_method.to_u16();
            assert_eq!(m, v.method);
            assert_eq!(f.last_modified_time.datepart(), v.date);
            assert_eq!(f.last_modified_time.timepart(), v.time);
            assert_eq!(f.crc32, v.crc);
            assert_eq!(f.compressed_size, 2);
            assert_eq!(f.uncompressed_size, v.usize_ as u64);
            assert_eq!(f.header_start, J as u64, "absolute offset of the old local header (prepended data included)");
            assert_eq!(f.external_attributes, v.eattr);
            assert_eq!(f.version_made_by, v.made_by as u8);
            assert!(match f.system {
                System::Dos => v.made_by >> 8 == 0,
                System::Unix => v.made_by >> 8 == 3,
                System::Unknown => v.made_by >> 8 != 0 && v.made_by >> 8 != 3,
            });
            assert!(!f.encrypted);
            assert!(!f.large_file);
            assert!(f.aes_mode.is_none());
            assert_eq!(f.extra_field.len(), 4);
            let mut i = 0;
            while i < 4 {
                assert_eq!(f.extra_field[i], TAILX[i]);
                i += 1;
            }
            kani::cover!(dd);
            kani::cover!(v.made_by >> 8 == 3 && v.method == 8);
                }
    };
}
/// C13(a) new_append on a one-entry archive from the independent builder (all entry metadata
/// symbolic: any method number but 99, times, CRC, declared size, attributes, made-by, data
/// descriptor flag; concrete 1-byte name; 2-byte archive comment): the writer comes back
/// positioned ON the old central directory, in the idle state with the raw flag set, holding one
/// entry whose every field equals the builder's central record (absolute header offset) and the
/// old archive comment.
// @h prop=C13 tier=quick t=900 mem=8 name=c13_open_state_j0 uws="fn:^std::ptr::drop_glue::<std::io::Error>$:2"
c13_open_state!(c13_open_state_j0, 0);
/// C13(a) as above for an archive with 2 bytes of prepended data: the re-hydrated header offset
/// is absolute (2) and the writer is positioned at 2 + the directory offset.
// @h prop=C13 tier=quick t=900 mem=8 name=c13_open_state_j2 uws="fn:^std::ptr::drop_glue::<std::io::Error>$:2"
c13_open_state!(c13_open_state_j2, 2);

/// writer state as new_append leaves it (shown by c13_open_state_*): idle, raw flag set, one old
/// entry with symbolic fields, positioned at `cd0` of an arbitrary existing file image
fn appended_state<const N: usize>(sink: &mut Sink<N>, old: ZipFileData, cm: &[u8; 2]) -> ZipWriter<SinkH<N>> {
    ZipWriter {
        inner: GenericZipWriter::Storer(MaybeEncrypted::Unencrypted(sink.handle())),
        files: vec![old],
        stats: Default::default(),
        writing_to_file: false,
        writing_to_extra_field: false,
        writing_to_central_extra_field_only: false,
        writing_raw: true,
        comment: cm.to_vec(),
    }
}
fn old_entry() -> ZipFileData {
    let mut f = any_zfd(String::from("o"), TAILX.to_vec());
    f.encrypted = false;
    f.large_file = false;
    f
}
/// judge the re-emitted central record of the old entry at `c0`; returns its extra length
fn judge_old_central(nb: &[u8], c0: usize, old: &ZipFileData) -> usize {
    assert_eq!(le32(nb, c0), SIG_CENTRAL);
    assert_eq!(le16(nb, c0 + 4), ((old.system as u16) << 8) | old.version_made_by as u16);
    assert_eq!(le16(nb, c0 + 8) & 1, 0);
    #[allow(deprecated)]
    let m = old.compression_method.to_u16();
    assert_eq!(le16(nb, c0 + 10), m);
    assert_eq!(le16(nb, c0 + 12), old.last_modified_time.timepart());
    assert_eq!(le16(nb, c0 + 14), old.last_modified_time.datepart());
    assert_eq!(le32(nb, c0 + 16), old.crc32);
    assert_eq!(le16(nb, c0 + 28), 1);
    assert_eq!(nb[c0 + 46], b'o');
    assert_eq!(le32(nb, c0 + 38), old.external_attributes);
    let u32s = (le32(nb, c0 + 24), le32(nb, c0 + 20), le32(nb, c0 + 42));
    let elen0 = le16(nb, c0 + 30) as usize;
    match strict_zip64_decode(nb, c0 + 47, elen0, u32s) {
        Some((usz, csz, off, z)) => {
            assert_eq!(usz, old.uncompressed_size);
            assert_eq!(csz, old.compressed_size);
            assert_eq!(off, old.header_start);
            assert_eq!(z + 4, elen0);
            let mut i = 0;
            while i < 4 {
                assert_eq!(nb[c0 + 47 + z + i], TAILX[i]);
                i += 1;
            }
        }
        None => assert!(false, "re-emitted central record inconsistent"),
    }
    elen0
}

/// C13(b) from the state new_append leaves (c13_open_state_*): one old entry with EVERY scalar
/// field symbolic (any method number, 64-bit sizes and header offset - so old entries that need
/// ZIP64 are included -, times, CRC, attributes, host system), writer positioned at the start of
/// the old central directory of an ARBITRARY existing file image; one new stored entry is added
/// and the archive finished: every byte in front of the old directory is untouched, the new
/// entry follows, the central directory lists the old entry first with all its values (strict
/// ZIP64 decoding), then the new one; counts, sizes, offsets exact; archive comment kept.
// @h prop=C13,C02 tier=quick t=1200 mem=8 uws="verif_h\d+c13_append_\w+\.\d+$:40;4Sink.*9write_all.*\.1$:30"
api_harness!(c13_append_one_from_state, 10, {
    const N: usize = 224;
    const CD0: usize = 33;
    let orig: [u8; N] = kani::any();
    let cm: [u8; 2] = kani::any();
    let mut sink = Sink::<N>::from_array(orig, CD0 + 51 + 24);
    sink.off = CD0;
    let old = old_entry();
    let oldc = any_zfd(String::new(), Vec::new()); // placeholder to keep field copies below simple
    core::mem::forget(oldc);
    let (o_usz, o_csz, o_off, o_crc, o_attr) = (old.uncompressed_size, old.compressed_size, old.header_start, old.crc32, old.external_attributes);
    let o_time = old.last_modified_time;
    #[allow(deprecated)]
    let o_m = old.compression_method.to_u16();
    let o_made = ((old.system as u16) << 8) | old.version_made_by as u16;
    let mut w = core::mem::ManuallyDrop::new(appended_state(&mut sink, old, &cm)); // never dropped (Drop would run finalize again)
    let (o1, date1, time1, perm1) = sym_opts();
    let d0: u8 = kani::any();
    ok!(w.start_file("n", o1), "start_file failed");
    ok!(w.write_all(&[d0]), "write failed");
    ok!(w.finish(), "finish failed");
    assert!(!sink.overflow);
    let nb = &sink.buf;
    // everything in front of the old central directory is untouched
    let mut i = 0;
    while i < CD0 {
        assert_eq!(nb[i], orig[i]);
        i += 1;
    }
    // new local entry directly after the old data
    assert_eq!(le32(nb, CD0), SIG_LOCAL);
    assert_eq!(le16(nb, CD0 + 8), 0);
    assert_eq!(le16(nb, CD0 + 10), time1);
    assert_eq!(le16(nb, CD0 + 12), date1);
    assert_eq!(le32(nb, CD0 + 14), ref_crc32(&[d0], 1));
    assert_eq!(le32(nb, CD0 + 18), 1);
    assert_eq!(le32(nb, CD0 + 22), 1);
    assert_eq!(le16(nb, CD0 + 26), 1);
    assert_eq!(le16(nb, CD0 + 28), 0);
    assert_eq!(nb[CD0 + 30], b'n');
    assert_eq!(nb[CD0 + 31], d0);
    // central directory: old entry, then new entry
    let c0 = CD0 + 32;
    let old_view = &w.files[0];
    assert!(old_view.uncompressed_size == o_usz && old_view.compressed_size == o_csz && old_view.header_start == o_off);
    assert!(old_view.crc32 == o_crc && old_view.external_attributes == o_attr);
    assert!(old_view.last_modified_time.timepart() == o_time.timepart() && old_view.last_modified_time.datepart() == o_time.datepart());
    #[allow(deprecated)]
    let m_now = old_view.compression_method.to_u16();
    assert_eq!(m_now, o_m);
    assert_eq!(le16(nb, c0 + 4), o_made);
    let elen0 = judge_old_central(nb, c0, old_view);
    let c1 = c0 + 47 + elen0;
    assert_eq!(le32(nb, c1), SIG_CENTRAL);
    assert_eq!(le16(nb, c1 + 10), 0);
    assert_eq!(le16(nb, c1 + 12), time1);
    assert_eq!(le16(nb, c1 + 14), date1);
    assert_eq!(le32(nb, c1 + 16), ref_crc32(&[d0], 1));
    assert_eq!(le32(nb, c1 + 20), 1);
    assert_eq!(le32(nb, c1 + 24), 1);
    assert_eq!(le16(nb, c1 + 28), 1);
    assert_eq!(le16(nb, c1 + 30), 0);
    assert_eq!(le32(nb, c1 + 38) >> 16, 0o100000 | perm1);
    assert_eq!(le32(nb, c1 + 42) as usize, CD0);
    assert_eq!(nb[c1 + 46], b'n');
    let eo = c1 + 47;
    assert_eq!(le32(nb, eo), SIG_EOCD);
    assert_eq!(le16(nb, eo + 8), 2);
    assert_eq!(le16(nb, eo + 10), 2);
    assert_eq!(le32(nb, eo + 12) as usize, eo - c0);
    assert_eq!(le32(nb, eo + 16) as usize, c0);
    assert_eq!(le16(nb, eo + 20), 2);
    assert_eq!(nb[eo + 22], cm[0]);
    assert_eq!(nb[eo + 23], cm[1]);
    assert_eq!(sink.end, eo + 24);
    kani::cover!(elen0 == 4 + 28);
    kani::cover!(elen0 == 4);
});

/// C13(b) appending nothing: from the same state, finish() alone rewrites the central directory
/// at the same place with the old entry's values and the old comment; nothing in front of it is
/// touched; an old entry that needs no ZIP64 record yields a byte-identical directory size.
// @h prop=C13 tier=quick t=1200 mem=8 uws="verif_h\d+c13_append_\w+\.\d+$:40;4Sink.*9write_all.*\.1$:30"
api_harness!(c13_append_nothing_from_state, 10, {
    const N: usize = 160;
    const CD0: usize = 33;
    let orig: [u8; N] = kani::any();
    let cm: [u8; 2] = kani::any();
    let mut sink = Sink::<N>::from_array(orig, CD0 + 51 + 24);
    sink.off = CD0;
    let old = old_entry();
    let mut w = core::mem::ManuallyDrop::new(appended_state(&mut sink, old, &cm)); // never dropped (Drop would run finalize again)
    ok!(w.finish(), "finish failed");
    let nb = &sink.buf;
    let mut i = 0;
    while i < CD0 {
        assert_eq!(nb[i], orig[i]);
        i += 1;
    }
    let elen0 = judge_old_central(nb, CD0, &w.files[0]);
    let eo = CD0 + 47 + elen0;
    assert_eq!(le32(nb, eo), SIG_EOCD);
    assert_eq!(le16(nb, eo + 8), 1);
    assert_eq!(le16(nb, eo + 10), 1);
    assert_eq!(le32(nb, eo + 12) as usize, eo - CD0);
    assert_eq!(le32(nb, eo + 16) as usize, CD0);
    assert_eq!(le16(nb, eo + 20), 2);
    assert_eq!(nb[eo + 22], cm[0]);
    assert_eq!(nb[eo + 23], cm[1]);
    if elen0 == 4 {
        // same size as the directory it replaces: the file ends where it ended
        assert_eq!(sink.end, CD0 + 51 + 24);
    }
    kani::cover!(elen0 == 4);
    kani::cover!(elen0 > 4);
});

/// C13(a) new_append on an EMPTY archive (end record + 1-byte comment from the independent
/// builder): the writer comes back idle, raw flag set, without entries, with the old comment,
/// positioned at the old end record.
// @h prop=C13,C12 tier=quick t=900 mem=8 uws="fn:^std::ptr::drop_glue::<std::io::Error>$:2"
api_harness!(c13_open_state_empty, 10, {
    const N: usize = 64;
    let mut b = [0u8; N];
    let cm: [u8; 1] = kani::any();
    let end0 = put_eocd(&mut b, 0, 0, 0, 0, 0, 0, 0, &cm);
    let mut sink = Sink::<N>::from_array(b, end0);
    let w = match ZipWriter::new_append(sink.handle()) {
        Ok(w) => w,
        Err(e) => {
            core::mem::forget(e);
            assert!(false, "empty archive refused by new_append");
            return;
        }
    };
    let w = core::mem::ManuallyDrop::new(w); // never dropped (Drop would run finalize)
    assert!(!w.writing_to_file && !w.writing_to_extra_field && !w.writing_to_central_extra_field_only && w.writing_raw);
    assert!(matches!(w.inner, GenericZipWriter::Storer(MaybeEncrypted::Unencrypted(_))));
    assert_eq!(w.files.len(), 0);
    assert_eq!(w.comment.len(), 1);
    assert_eq!(w.comment[0], cm[0]);
    assert_eq!(sink.off, 0);
    kani::cover!(true);
});

/// C13(b) from the state c13_open_state_empty establishes (idle, raw flag set, no entries, old
/// comment, positioned at 0 over the old end record): adding one stored entry and finishing
/// yields exactly the one-entry archive of the reference layout with the comment kept; finishing
/// at once re-emits the empty archive.
// @h prop=C13,C12 tier=quick t=900 mem=8
api_harness!(c13_append_to_empty_from_state, 10, {
    const N: usize = 128;
    let mut b = [0u8; N];
    let cm: [u8; 1] = kani::any();
    let end0 = put_eocd(&mut b, 0, 0, 0, 0, 0, 0, 0, &cm);
    let mut sink = Sink::<N>::from_array(b, end0);
    let mut w = core::mem::ManuallyDrop::new(ZipWriter {
        inner: GenericZipWriter::Storer(MaybeEncrypted::Unencrypted(sink.handle())),
        files: Vec::new(),
        stats: Default::default(),
        writing_to_file: false,
        writing_to_extra_field: false,
        writing_to_central_extra_field_only: false,
        writing_raw: true,
        comment: cm.to_vec(),
    });
    let add: bool = kani::any();
    if add {
        let (o1, date1, time1, perm1) = sym_opts();
        let d0: u8 = kani::any();
        ok!(w.start_file("n", o1), "start_file failed");
        ok!(w.write_all(&[d0]), "write failed");
        ok!(w.finish(), "finish failed");
        let exp = [Exp { name: b"n", content: &[d0], local_extra: &[], central_extra: &[], large: false, date: date1, time: time1, mode: 0o100000 | perm1, encrypted: false, raw: None }];
        judge_archive(&sink.buf, 0, sink.end, &exp, &cm);
    } else {
        ok!(w.finish(), "finish failed");
        judge_archive(&sink.buf, 0, sink.end, &[], &cm);
        assert_eq!(sink.end, end0);
    }
    kani::cover!(add);
    kani::cover!(!add);
});

macro_rules! c11_append_read_fault {
    ($name:ident, $k:expr) => {
        #[kani::proof]
        #[kani::unwind(10)]
        #[kani::stub(time::OffsetDateTime::now_utc, crate::verif_kit::stub_now_utc)]
        #[kani::stub(crc32fast::Hasher::internal_new_specialized, crate::verif_kit::stub_crc_specialized)]
        #[kani::stub(alloc::fmt::format, crate::verif_kit::stub_format)]
        fn $name() {
            const N: usize = 160;
            let mut b = [0u8; N];
            let mut v = EntryVals::any();
            v.flags = 0;
            kani::assume(v.usize_ != 0xFFFF_FFFF);
            kani::assume(v.method != 99);
            let name: [u8; 1] = [b'o'];
            let payload: [u8; 2] = kani::any();
            let cm: [u8; 2] = kani::any();
            v.csize = 2;
            v.offset = 0;
            v.disk = 0;
            let p = put_local(&mut b, 0, &v, v.crc, 2, v.usize_, &name, &[]);
            b[p] = payload[0];
            b[p + 1] = payload[1];
            let cd0 = p + 2;
            let e0 = put_central(&mut b, cd0, &v, &name, &TAILX, &[]);
            let end0 = put_eocd(&mut b, e0, 0, 0, 1, 1, (e0 - cd0) as u32, cd0 as u32, &cm);
            let mut sink = Sink::<N>::from_array(b, end0);
            sink.env = Env::faulty($k, K_READ | K_SEEK);
            match ZipWriter::new_append(sink.handle()) {
                Ok(w) => {
                    // tolerated only if the failing call was the final repositioning seek, whose
                    // result the crate documents as ignored - but then every entry must be there
                    assert!(!sink.env.faulted || w.files.len() == 1, "an I/O failure while re-reading the old directory was swallowed and entries were lost");
                    core::mem::forget(w);
                }
                Err(e) => {
                    assert!(sink.env.faulted, "new_append failed without any I/O failure");
                    core::mem::forget(e);
                }
            }
            kani::cover!(sink.env.faulted == ($k < 100));
        }
    };
}
/// C11 append: the existing archive's reader fails (read or seek) at I/O call 30 while
/// new_append re-reads the old central directory: new_append returns an error - never a writer
/// that silently lost the old entries.
// @h prop=C11,C13 tier=quick t=300 mem=4 name=c11_append_read_fault_k030 uws="fn:^std::ptr::drop_glue::<std::io::Error>$:2"
c11_append_read_fault!(c11_append_read_fault_k030, 30);
/// C11 append, fault at I/O call 22.
// @h prop=C11,C13 tier=quick t=300 mem=4 name=c11_append_read_fault_k022 uws="fn:^std::ptr::drop_glue::<std::io::Error>$:2"
c11_append_read_fault!(c11_append_read_fault_k022, 22);
/// C11 append, fault at I/O call 38.
// @h prop=C11,C13 tier=quick t=300 mem=4 name=c11_append_read_fault_k038 uws="fn:^std::ptr::drop_glue::<std::io::Error>$:2"
c11_append_read_fault!(c11_append_read_fault_k038, 38);
/// C11 append, no fault (index beyond the scenario): new_append succeeds.
// @h prop=C11,C13 tier=quick t=300 mem=4 name=c11_append_read_fault_k200 uws="fn:^std::ptr::drop_glue::<std::io::Error>$:2"
c11_append_read_fault!(c11_append_read_fault_k200, 200);
/// C11 append, fault at I/O call 26.
// @h prop=C11,C13 tier=quick t=300 mem=4 name=c11_append_read_fault_k026 uws="fn:^std::ptr::drop_glue::<std::io::Error>$:2"
c11_append_read_fault!(c11_append_read_fault_k026, 26);
/// C11 append, fault at I/O call 34.
// @h prop=C11,C13 tier=quick t=300 mem=4 name=c11_append_read_fault_k034 uws="fn:^std::ptr::drop_glue::<std::io::Error>$:2"
c11_append_read_fault!(c11_append_read_fault_k034, 34);

/// one aligned entry at a concrete file offset with a concrete alignment; data symbolic
fn aligned_case(base: u64, align: u16) {
    let mut sink = Sink::<160>::with_base(base);
    let mut w = core::mem::ManuallyDrop::new(ZipWriter::new(sink.handle()));
    let (o1, _, _, _) = sym_opts();
    let d0: u8 = kani::any();
    let pad = match w.start_file_aligned("a", o1, align) {
        Ok(p) => p,
        Err(e) => {
            core::mem::forget(e);
            assert!(false, "a small alignment was refused");
            return;
        }
    };
    match w.write(&[d0]) {
        Ok(n) => assert_eq!(n, 1),
        Err(e) => {
            core::mem::forget(e);
            assert!(false, "write failed");
        }
    }
    match w.finish() {
        Ok(_) => {}
        Err(e) => {
            core::mem::forget(e);
            assert!(false, "finish failed");
            return;
        }
    }
    let b = &sink.buf;
    assert_eq!(le32(b, 0), SIG_LOCAL);
    assert_eq!(le16(b, 26), 1);
    let x = le16(b, 28) as usize;
    assert_eq!(pad, x as u64);
    let data_at = 31 + x;
    if align >= 2 {
        assert_eq!((base + data_at as u64) % (align as u64), 0, "entry data not aligned");
        assert!(x == 0 || (x >= 4 && x < 4 + align as usize));
    } else {
        assert_eq!(x, 0);
    }
    if x > 0 {
        assert_eq!(le16(b, 31), 0x617a);
        assert_eq!(le16(b, 33) as usize, x - 4);
    }
    assert_eq!(b[data_at], d0);
    let cd = data_at + 1;
    assert_eq!(le32(b, cd), SIG_CENTRAL);
    assert_eq!(le16(b, cd + 30), 0); // padding is local-only
    assert_eq!(le32(b, cd + 42) as u64, base);
    assert_eq!(le32(b, cd + 20), 1);
}
/// C17 alignment, enumerated: start_file_aligned with alignment 4 at file offsets 0..=3 (every
/// residue of the unpadded data offset) plus alignments 0, 1 and 2: the data of the entry begins
/// at a multiple of the alignment, the padding travels in a well-formed local-only extra record
/// (id 0x617a) whose length is what the call returned, and the content byte (symbolic) is where
/// the local header says. Alignment and offset are concrete per case (a symbolic padding length
/// is a symbolic-size allocation and did not finish), so this harness decides the cases listed,
/// not every alignment.
// @h prop=C17 tier=thorough t=2400 mem=8 uws="fn:^std::ptr::drop_glue::<std::io::Error>$:2;write19validate_extra_data\.0$:4;Iterator3any.*validate_extra_data:51"
api_harness!(c17_aligned_enumerated_4, 12, {
    aligned_case(0, 4);
    aligned_case(1, 4);
    aligned_case(2, 4);
    aligned_case(3, 4);
    aligned_case(0, 0);
    aligned_case(5, 1);
    aligned_case(0, 2);
    aligned_case(1, 2);
    kani::cover!(true);
});
/// C17 alignment, enumerated: alignment 8 with the unpadded data offset 4 short of a boundary
/// (file offset 5) and on a boundary (file offset 1), alignment 3 at file offsets 0..=2.
// @h prop=C17 tier=quick t=1500 mem=6 uws="fn:^std::ptr::drop_glue::<std::io::Error>$:2;write19validate_extra_data\.0$:4;Iterator3any.*validate_extra_data:51"
api_harness!(c17_aligned_enumerated_8_3, 16, {
    aligned_case(5, 8);
    aligned_case(1, 8);
    aligned_case(0, 3);
    aligned_case(1, 3);
    aligned_case(2, 3);
    kani::cover!(true);
});
