// Harnesses for src/spec.rs: end-of-central-directory records (C02, C03, C05, C08).
#[allow(unused_imports)]
use crate::verif_kit::*;

/// C02 end-of-central-directory record serialisation (APPNOTE 4.3.16): every field value, 2-byte
/// comment: fields at their offsets, comment length field == true length, comment verbatim.
// @h prop=C02 tier=quick t=300 mem=4
#[kani::proof]
#[kani::unwind(6)]
fn c02_eocd_write_layout() {
    let cm: [u8; 2] = kani::any();
    let e = CentralDirectoryEnd {
        disk_number: kani::any(),
        disk_with_central_directory: kani::any(),
        number_of_files_on_this_disk: kani::any(),
        number_of_files: kani::any(),
        central_directory_size: kani::any(),
        central_directory_offset: kani::any(),
        zip_file_comment: cm.to_vec(),
    };
    let mut sink = Sink::<32>::new();
    match e.write(&mut sink) {
        Ok(()) => {}
        Err(x) => {
            core::mem::forget(x);
            assert!(false, "EOCD write failed");
        }
    }
    let b = &sink.buf;
    assert_eq!(sink.end, 24);
    assert_eq!(le32(b, 0), SIG_EOCD);
    assert_eq!(le16(b, 4), e.disk_number);
    assert_eq!(le16(b, 6), e.disk_with_central_directory);
    assert_eq!(le16(b, 8), e.number_of_files_on_this_disk);
    assert_eq!(le16(b, 10), e.number_of_files);
    assert_eq!(le32(b, 12), e.central_directory_size);
    assert_eq!(le32(b, 16), e.central_directory_offset);
    assert_eq!(le16(b, 20), 2);
    assert_eq!(b[22], cm[0]);
    assert_eq!(b[23], cm[1]);
    kani::cover!(e.number_of_files == 0xffff);
    core::mem::forget(e);
}

/// C02/C08 ZIP64 end record + locator serialisation (APPNOTE 4.3.14/4.3.15): every field value.
// @h prop=C02,C08 tier=quick t=300 mem=4
#[kani::proof]
#[kani::unwind(10)]
fn c08_eocd64_and_locator_write_layout() {
    let e = Zip64CentralDirectoryEnd {
        version_made_by: kani::any(),
        version_needed_to_extract: kani::any(),
        disk_number: kani::any(),
        disk_with_central_directory: kani::any(),
        number_of_files_on_this_disk: kani::any(),
        number_of_files: kani::any(),
        central_directory_size: kani::any(),
        central_directory_offset: kani::any(),
    };
    let l = Zip64CentralDirectoryEndLocator {
        disk_with_central_directory: kani::any(),
        end_of_central_directory_offset: kani::any(),
        number_of_disks: kani::any(),
    };
    let mut sink = Sink::<80>::new();
    match e.write(&mut sink) {
        Ok(()) => {}
        Err(x) => {
            core::mem::forget(x);
            assert!(false);
        }
    }
    match l.write(&mut sink) {
        Ok(()) => {}
        Err(x) => {
            core::mem::forget(x);
            assert!(false);
        }
    }
    let b = &sink.buf;
    assert_eq!(sink.end, 76);
    assert_eq!(le32(b, 0), SIG_EOCD64);
    assert_eq!(le64(b, 4), 44); // size of the remaining record (APPNOTE: total - 12)
    assert_eq!(le16(b, 12), e.version_made_by);
    assert_eq!(le16(b, 14), e.version_needed_to_extract);
    assert_eq!(le32(b, 16), e.disk_number);
    assert_eq!(le32(b, 20), e.disk_with_central_directory);
    assert_eq!(le64(b, 24), e.number_of_files_on_this_disk);
    assert_eq!(le64(b, 32), e.number_of_files);
    assert_eq!(le64(b, 40), e.central_directory_size);
    assert_eq!(le64(b, 48), e.central_directory_offset);
    assert_eq!(le32(b, 56), SIG_LOC64);
    assert_eq!(le32(b, 60), l.disk_with_central_directory);
    assert_eq!(le64(b, 64), l.end_of_central_directory_offset);
    assert_eq!(le32(b, 72), l.number_of_disks);
    kani::cover!(e.central_directory_offset > 0xFFFF_FFFF);
}

/// C03 end record parse: a record built by the independent builder with arbitrary values and a
/// 2-byte comment is decoded field by field; a wrong signature is an error.
// @h prop=C03 tier=quick t=300 mem=4
#[kani::proof]
#[kani::unwind(6)]
fn c03_eocd_parse() {
    let mut b = [0u8; 32];
    let cm: [u8; 2] = kani::any();
    let (d, cd, nh, nt): (u16, u16, u16, u16) = (kani::any(), kani::any(), kani::any(), kani::any());
    let (sz, off): (u32, u32) = (kani::any(), kani::any());
    put_eocd(&mut b, 0, d, cd, nh, nt, sz, off, &cm);
    let sig_ok: bool = kani::any();
    if !sig_ok {
        let s: u32 = kani::any();
        kani::assume(s != SIG_EOCD);
        put32(&mut b, 0, s);
    }
    let mut src = Src::<32>::new(b, 24);
    match CentralDirectoryEnd::parse(&mut src) {
        Ok(e) => {
            assert!(sig_ok);
            assert_eq!(e.disk_number, d);
            assert_eq!(e.disk_with_central_directory, cd);
            assert_eq!(e.number_of_files_on_this_disk, nh);
            assert_eq!(e.number_of_files, nt);
            assert_eq!(e.central_directory_size, sz);
            assert_eq!(e.central_directory_offset, off);
            assert_eq!(e.zip_file_comment.len(), 2);
            assert_eq!(e.zip_file_comment[0], cm[0]);
            assert_eq!(e.zip_file_comment[1], cm[1]);
            assert_eq!(e.record_too_small(), d == 0xffff || cd == 0xffff || nh == 0xffff || nt == 0xffff || sz == 0xffff_ffff || off == 0xffff_ffff);
            kani::cover!(true);
            core::mem::forget(e);
        }
        Err(x) => {
            core::mem::forget(x);
            assert!(!sig_ok);
            kani::cover!(true);
        }
    }
}

/// C09/C03 end record parse under short reads: the underlying reader returns ONE byte per read
/// call (a symbolic chunk schedule makes every later buffer index symbolic and did not finish
/// within the caps); all fields (symbolic) and the 3-byte comment are decoded exactly as from a
/// reader that never splits.
// @h prop=C09,C03 tier=quick t=300 mem=4
#[kani::proof]
#[kani::unwind(8)]
fn c09_eocd_parse_short_reads() {
    let mut b = [0u8; 32];
    let cm: [u8; 3] = kani::any();
    let (d, cd, nh, nt): (u16, u16, u16, u16) = (kani::any(), kani::any(), kani::any(), kani::any());
    let (sz, off): (u32, u32) = (kani::any(), kani::any());
    put_eocd(&mut b, 0, d, cd, nh, nt, sz, off, &cm);
    let mut src = Src::<32>::with_env(b, 25, Env::short(0)); // every read call returns exactly 1 byte
    match CentralDirectoryEnd::parse(&mut src) {
        Ok(e) => {
            assert_eq!(e.disk_number, d);
            assert_eq!(e.disk_with_central_directory, cd);
            assert_eq!(e.number_of_files_on_this_disk, nh);
            assert_eq!(e.number_of_files, nt);
            assert_eq!(e.central_directory_size, sz);
            assert_eq!(e.central_directory_offset, off);
            assert_eq!(e.zip_file_comment.len(), 3);
            assert_eq!(e.zip_file_comment[0], cm[0]);
            assert_eq!(e.zip_file_comment[1], cm[1]);
            assert_eq!(e.zip_file_comment[2], cm[2]);
            kani::cover!(src.env.calls > 20);
            core::mem::forget(e);
        }
        Err(x) => {
            core::mem::forget(x);
            assert!(false, "a complete end record was refused because the reader returned short reads");
        }
    }
}

macro_rules! c05_find_eocd {
    ($name:ident, $len:expr, $unwind:expr) => {
        #[kani::proof]
        #[kani::unwind($unwind)]
        fn $name() {
            const LEN: usize = $len;
            let b: [u8; LEN] = kani::any();
            let mut src = Src::<LEN>::new(b, LEN);
            let r = CentralDirectoryEnd::find_and_parse(&mut src);
            // reference: the last position p <= LEN-22 holding the signature
            let mut last: i32 = -1;
            let mut p = 0usize;
            while p + 22 <= LEN {
                if le32(&b, p) == SIG_EOCD {
                    last = p as i32;
                }
                p += 1;
            }
            match r {
                Ok((e, pos)) => {
                    assert!(last >= 0);
                    assert_eq!(pos, last as u64);
                    // comment must fit inside the file
                    assert!(pos as usize + 22 + e.zip_file_comment.len() <= LEN);
                    assert_eq!(e.zip_file_comment.len(), le16(&b, pos as usize + 20) as usize);
                    assert_eq!(e.central_directory_offset, le32(&b, pos as usize + 16));
                    kani::cover!(pos as usize + 22 < LEN);
                    kani::cover!(pos as usize + 22 == LEN);
                    core::mem::forget(e);
                }
                Err(x) => {
                    core::mem::forget(x);
                    // error only if there is no signature at all, or the last record's comment
                    // length overruns the file
                    if last >= 0 {
                        let cl = le16(&b, last as usize + 20) as usize;
                        assert!(last as usize + 22 + cl > LEN);
                    }
                    kani::cover!(last < 0);
                    kani::cover!(last >= 0);
                }
            }
        }
    };
}
/// C05/C03 backward end-record search over EVERY 24-byte input: terminates, never panics, and
/// finds exactly the last position holding the end-record signature (trailing bytes after the
/// record are tolerated); it fails only when no signature exists or the declared comment
/// overruns the input.
// @h prop=C05,C03 tier=quick t=300 mem=4 name=c05_find_eocd_24
c05_find_eocd!(c05_find_eocd_24, 24, 8);
/// C05 backward end-record search over every 28-byte input (7 candidate positions).
// @h prop=C05,C03 tier=thorough t=1800 mem=12 name=c05_find_eocd_28
c05_find_eocd!(c05_find_eocd_28, 28, 12);

/// C05 inputs shorter than an end record are rejected with an error (no underflow).
// @h prop=C05 tier=quick t=300 mem=4
#[kani::proof]
#[kani::unwind(4)]
fn c05_find_eocd_too_short() {
    let b: [u8; 21] = kani::any();
    let n: usize = kani::any();
    kani::assume(n <= 21);
    let mut src = Src::<21>::new(b, n);
    let r = CentralDirectoryEnd::find_and_parse(&mut src);
    assert!(r.is_err());
    kani::cover!(n == 0);
    kani::cover!(n == 21);
    core::mem::forget(r);
}

/// C08/C03 ZIP64 end record forward search: a record built by the independent builder at
/// nominal offset + shift (shift 0..=2 bytes of prepended data, symbolic) is found, all 64-bit
/// fields decoded exactly, and the returned archive offset equals the shift.
// @h prop=C08,C03 tier=quick t=300 mem=4
#[kani::proof]
#[kani::unwind(12)]
fn c08_eocd64_find_and_parse() {
    const N: usize = 64;
    let mut b = [0u8; N];
    let shift: usize = kani::any();
    kani::assume(shift <= 2);
    let (mb, nd): (u16, u16) = (kani::any(), kani::any());
    let (d, cd): (u32, u32) = (kani::any(), kani::any());
    let (nh, nt, sz, off): (u64, u64, u64, u64) = (kani::any(), kani::any(), kani::any(), kani::any());
    // prepended bytes must not fake a signature start
    let j: [u8; 2] = kani::any();
    kani::assume(j[0] != 0x50 && j[1] != 0x50);
    b[0] = j[0];
    b[1] = j[1];
    let nominal: u64 = 0;
    if shift == 0 {
        put_eocd64(&mut b, 0, mb, nd, d, cd, nh, nt, sz, off);
    } else if shift == 1 {
        put_eocd64(&mut b, 1, mb, nd, d, cd, nh, nt, sz, off);
    } else {
        put_eocd64(&mut b, 2, mb, nd, d, cd, nh, nt, sz, off);
    }
    let mut src = Src::<N>::new(b, N);
    match Zip64CentralDirectoryEnd::find_and_parse(&mut src, nominal, 4) {
        Ok((e, ao)) => {
            assert_eq!(ao, shift as u64);
            assert_eq!(e.version_made_by, mb);
            assert_eq!(e.version_needed_to_extract, nd);
            assert_eq!(e.disk_number, d);
            assert_eq!(e.disk_with_central_directory, cd);
            assert_eq!(e.number_of_files_on_this_disk, nh);
            assert_eq!(e.number_of_files, nt);
            assert_eq!(e.central_directory_size, sz);
            assert_eq!(e.central_directory_offset, off);
            kani::cover!(shift == 2);
            kani::cover!(shift == 0 && off > 0xFFFF_FFFF);
        }
        Err(x) => {
            core::mem::forget(x);
            assert!(false, "ZIP64 end record not found");
        }
    }
}

/// C05 ZIP64 end record search over arbitrary bytes with arbitrary (nominal, upper bound)
/// where the window is at most 4 positions: terminates, no overflow/panic; a hit implies the
/// signature is at nominal + returned offset.
// @h prop=C05 tier=quick t=480 mem=5
#[kani::proof]
#[kani::unwind(10)]
fn c05_eocd64_search_arbitrary() {
    const N: usize = 64;
    let b: [u8; N] = kani::any();
    let nominal: u64 = kani::any();
    let upper: u64 = kani::any();
    kani::assume(upper < u64::MAX); // pos += 1 at u64::MAX is unreachable for real files (length < 2^63)
    kani::assume(upper < nominal || upper - nominal <= 4);
    let mut src = Src::<N>::new(b, N);
    match Zip64CentralDirectoryEnd::find_and_parse(&mut src, nominal, upper) {
        Ok((_e, ao)) => {
            let p = nominal + ao;
            assert!(p <= upper);
            assert!(p as usize + 56 <= N);
            assert_eq!(le32(&b, p as usize), SIG_EOCD64);
            kani::cover!(ao == 3);
        }
        Err(x) => {
            core::mem::forget(x);
            kani::cover!(upper < nominal);
            kani::cover!(upper >= nominal);
        }
    }
}

/// C03/C08 ZIP64 locator parse: every field value; wrong signature -> InvalidArchive (which the
/// opener treats as "no ZIP64").
// @h prop=C08,C03 tier=quick t=300 mem=4
#[kani::proof]
#[kani::unwind(10)]
fn c08_locator_parse() {
    let mut b = [0u8; 20];
    let (d, n): (u32, u32) = (kani::any(), kani::any());
    let o: u64 = kani::any();
    put_loc64(&mut b, 0, d, o, n);
    let sig_ok: bool = kani::any();
    if !sig_ok {
        let s: u32 = kani::any();
        kani::assume(s != SIG_LOC64);
        put32(&mut b, 0, s);
    }
    let mut src = Src::<20>::new(b, 20);
    match Zip64CentralDirectoryEndLocator::parse(&mut src) {
        Ok(l) => {
            assert!(sig_ok);
            assert_eq!(l.disk_with_central_directory, d);
            assert_eq!(l.end_of_central_directory_offset, o);
            assert_eq!(l.number_of_disks, n);
            kani::cover!(true);
        }
        Err(ZipError::InvalidArchive(_)) => {
            assert!(!sig_ok);
            kani::cover!(true);
        }
        Err(x) => {
            core::mem::forget(x);
            assert!(false, "unexpected error kind");
        }
    }
}

