"""Per-property claim texts used for MANIFEST.json and the evidence files."""

# property -> dict(text, note, technique, design_ref)
CLAIMS = {
    "C18": dict(
        text="Bounded model checking (Kani/CBMC) of the real DateTime code: from_msdos/datepart/timepart are shown mutually "
             "inverse for all 2^32 (date,time) words and equal to the APPNOTE bit layout; from_date_and_time accepts exactly the "
             "documented ranges for all 2^56 argument tuples; to_time (real `time` crate code) is total on all 2^32 words, errs "
             "exactly on impossible calendar values and try_from(to_time(x)) == x; try_from accepts exactly 1980..=2107. "
             "These queries are loop-free and exhaustive over their whole input space.",
        note="Trusted: Kani/CBMC/CaDiCaL; the `time` crate is encoded as compiled (not stubbed). The archive round trip of the two words is covered under C01/C02.",
        technique="Kani proof harnesses (CBMC bit-blasting to CaDiCaL) over symbolic u16/u8 fields; SAT verdict per assertion",
        design_ref="DESIGN.md §5 C18",
    ),
}

# property -> reason (for properties not claimed)
NOT_APPLICABLE = {}

ASSUME = {}
OUTSIDE = {
    "C18": "nothing inside DateTime; the archive-level round trip of timestamps is part of C01/C02",
}
