"""Per-property claim texts used for MANIFEST.json and the evidence files.

Only properties with at least one registered (quick-tier) harness that is discharged on the
unchanged tree appear in CLAIMS; everything else is listed with its reason in NOT_APPLICABLE.
"""

TECH = ("Kani 0.68 proof harnesses compiled into the crate (cfg(kani)), symbolically executed and bit-blasted by "
        "CBMC 6.11 to CaDiCaL; one SAT/UNSAT verdict per assertion / overflow / bounds / unwinding check over all "
        "values of the symbolic inputs within the stated bounds; counterexamples replayed concretely (cargo kani playback)")

TRUST = ("Trusted: Kani's MIR->goto translation, CBMC, CaDiCaL; the harness I/O models (array-backed Sink/Src/EnvReader) "
         "and the stubs listed in the evidence; crate built with --no-default-features --features time (+aes-crypto where "
         "named), so Deflate/Bzip2/Zstd arms are compiled out and every claim is for Stored or undecoded payloads. ")

# property -> dict(text, note, technique, design_ref)
CLAIMS = {
    "C01": dict(
        text="Bounded model checking of the real writer and reader code, composed through an independent APPNOTE layout "
             "reference: (writer half) ZipWriter::{new,set_raw_comment,start_file,add_directory,add_symlink,write,finish} over "
             "an array sink with symbolic DOS date/time words, permission word, name byte, payload bytes (<= 3), comment "
             "bytes (<= 2), large_file on/off, one to two entries incl. implicit close: every byte of the produced archive "
             "equals what the reference layout prescribes (name, method, time, mode, sizes, CRC = bitwise reference CRC, "
             "offsets, counts, comment); (reader half) ZipArchive::new/by_index/read over archives of exactly that layout "
             "family built by an independent byte-level builder with symbolic values return every value and the payload "
             "bytes. Inside the bounds the verdict covers all values; outside them (names > 2 bytes, payloads > 3 bytes, "
             "> 2 entries, compressing methods, finish-by-drop) nothing is claimed.",
        note=TRUST + "Write->read is shown compositionally (writer == reference layout, reader on reference layout == values), not by "
             "feeding the symbolic sink into the reader in one query.",
        design_ref="DESIGN.md §5 C01, §11",
    ),
    "C02": dict(
        text="Bounded model checking of the record serialisers and of the public writer API against an APPNOTE-offset "
             "'strict reader' that shares no code with the crate: local header, central header (with ZIP64 extended "
             "information decoded the way a strict reader does: value taken from the record iff the 32-bit field is "
             "0xFFFFFFFF, APPNOTE order), end record, ZIP64 end record and locator - for ALL values of every scalar field "
             "(64-bit sizes and offsets, flags, any method number, times, attributes) with 1-2 byte names and 0-4 bytes of "
             "extra data; API level: local header == central header, offsets/sizes/counts exact, UTF-8 flag <=> non-ASCII "
             "name, CRC/sizes match the data, for one- and two-entry archives.",
        note=TRUST + "The length-limit clause (name/comment/extra >= 65536 bytes rejected) is outside the bound: 64 KiB symbolic "
             "buffers are not encodable here; see DESIGN.md.",
        design_ref="DESIGN.md §5 C02, §11",
    ),
    "C03": dict(
        text="Bounded model checking of the seekable reader on archives produced by an independent byte-level builder "
             "(APPNOTE layouts, symbolic values): end-record search over every 24-byte input, end-record / ZIP64 end "
             "record / locator parsing for all field values, ZIP64 extended information in all 2^3 field subsets between "
             "unknown records, ZipArchive::new + every accessor on a one-entry archive with 2 bytes of prepended junk "
             "(offset() == junk length, offsets shifted, data descriptor bit with zeroed local sizes, any made-by system "
             "and attributes -> unix_mode, CP437/UTF-8 name), and the entry data path find_content -> make_crypto_reader "
             "-> ZipFile::read with a local header whose name/extra lengths differ from the central record.",
        note=TRUST + "by_name / duplicate-name lookup (hashbrown + SipHash) is not encodable and is outside the claim (HashMap::insert "
             "is stubbed); entry counts > 1 on the open path, compressed payloads and CPython-built archives are outside.",
        design_ref="DESIGN.md §5 C03, §11",
    ),
    "C04": dict(
        text="Bounded model checking of the checksum gate (Crc32Reader) over a pure-environment inner reader that returns "
             "arbitrary bytes in arbitrary short chunks (so it over-approximates every decoder): a non-empty read returns "
             "Ok(0) only if all bytes were delivered unchanged and (AE-2 or bitwise-reference CRC-32 == declared CRC); an "
             "error arises only at EOF and only on a real mismatch; zero-length reads never consume; EOF is sticky. Streams "
             "of 0-2 bytes (3 in thorough), all caller buffer schedules in the bound. Plus the real path by_index-style "
             "(find_content -> make_crypto_reader -> make_reader -> Crc32Reader) with symbolic payload and symbolic "
             "DECLARED CRC: read completes iff the declared CRC equals the reference CRC of the data.",
        note=TRUST + "crc32fast's portable baseline path is the code encoded (CPU-feature probe stubbed); streams > 3 bytes (the 16/64-byte "
             "folding loops) are outside the bound.",
        design_ref="DESIGN.md §5 C04",
    ),
    "C05": dict(
        text="Bounded model checking for absence of panics / arithmetic overflow / out-of-bounds / unwrap failures / unbounded "
             "loops (CBMC's automatic checks + unwinding assertions) in the readers over hostile input: end-record search "
             "over every 24-byte input and every too-short input, ZIP64 end-record search over arbitrary bytes and "
             "arbitrary (nominal, bound) offsets, parse_extra_field over every 4- and 11-byte extra field with arbitrary "
             "size/offset sentinels, by_index / by_index_raw + first read on a one-entry archive whose central metadata is "
             "adversarial (encrypted flag, AES info present or not, any method number incl. 99, data-descriptor flag, sizes, "
             "CRC) over an arbitrary 64-byte local-header region, truncated ZipCrypto header, AES entries shorter than "
             "their framing, streaming reader refusing encrypted/data-descriptor entries.",
        note=TRUST + "Memory-use bound, new_append on hostile input, the streaming reader over fully hostile headers and by_index_decrypt "
             "with the real AES primitives are outside what was discharged within the caps (harnesses exist in tier 'dev').",
        design_ref="DESIGN.md §5 C05, §11",
    ),
    "C06": dict(
        text="Bounded model checking of the validated-path accessor: for EVERY name of length 2 and 3 (4 in thorough, split on "
             "the first byte) over the path-relevant byte classes {ordinary byte, '.', '/', '\\', NUL} - 25, 125 and 625 names, "
             "each family in one query over the real enclosed_name and the real std::path::Components iterator - the result is "
             "Some exactly when an independent lexical walk over the bytes says the name is relative, NUL-free and never climbs "
             "above its starting directory, and then the returned path is the name unchanged.",
        note=TRUST + "mangled_name (file_name_sanitized) is NOT covered: its String::replace / PathBuf::push allocations have symbolic "
             "sizes and exhausted 25 GB already for 1-byte names (harnesses kept in tier 'dev'); names longer than 4 bytes and "
             "non-Unix path semantics are outside the bound. This is a weak bound and is reported as such.",
        design_ref="DESIGN.md §5 C06, §11",
    ),
    "C08": dict(
        text="Bounded model checking at the exact 32-bit boundaries with fully symbolic 64-bit values (the solver chooses "
             "0xFFFFFFFE/FF/1_0000_0000 itself): central header writer -> strict APPNOTE ZIP64 decoding recovers "
             "uncompressed size, compressed size and header offset EXACTLY for all 2^192 combinations; local header with "
             "large_file; finalize at an arbitrary 62-bit archive offset through a sparse sink (ZIP64 end record + locator "
             "present iff needed, exact values, sentinels in the classic record); ZIP64 end record / locator serialisation "
             "and parsing for all values; reader-side ZIP64 extended information in all 2^3 subsets.",
        note=TRUST + "Entry-count thresholds (> 65535 entries) need 65536 symbolic passes and are outside the bound; the 4 GiB write guard "
             "harness is in tier 'dev' (not discharged within the caps).",
        design_ref="DESIGN.md §5 C08, §11",
    ),
    "C09": dict(
        text="Bounded model checking of chunking independence for the components discharged so far: the checksum reader "
             "over an environment reader with an arbitrary short-read schedule and arbitrary caller buffer sizes incl. "
             "zero-length reads (returned bytes and EOF/error outcome independent of the schedule, EOF sticky); the writer "
             "with the caller splitting a payload across several write calls and entries (archive bytes equal the "
             "reference layout for the concatenated payload).",
        note=TRUST + "ZipCrypto / AES-CTR chunking harnesses and the short-write sink harness exist in tier 'dev' but are not discharged "
             "within the caps on the repaired tree; the ZipCrypto short-read defect they found is recorded as fixed.",
        design_ref="DESIGN.md §5 C09, §11",
    ),
    "C10": dict(
        text="Bounded model checking of two mechanisms of the streaming reader only: (1) an entry the stream cannot support - "
             "encryption bit or data-descriptor bit set, all other header values symbolic - is refused with an error, never "
             "data; (2) resynchronisation: releasing the ZipFile that read_zipfile_from_stream hands out (owned metadata, "
             "reader limited to the compressed size, constructed directly) after the consumer read 0 or 1 of its 3 bytes, over "
             "an underlying stream that returns one byte per read call, leaves the stream exactly at the first byte after the "
             "entry's data (the drop-time drain loops until end-of-entry, not until the first short read).",
        note=TRUST + "NOT decided: that names/sizes/methods/timestamps/contents agree with the seekable reader and that the visitor "
             "delivers central-directory metadata - read_zipfile_from_stream returns a merged Result whose fields are not "
             "constants for symbolic execution, and the whole-entry harnesses (tier 'dev') do not finish within 600 s / 10 GB. "
             "The entry state in (2) is constructed, not produced by the header parser.",
        design_ref="DESIGN.md §5 C10, §11",
    ),
    "C11": dict(
        text="Bounded model checking of single I/O faults in the writer: the scenario new, start_file(a), write, start_file(b), "
             "write, finish, drop runs over a sink that fails at ONE I/O call; the call index is concrete per harness variant - "
             "one variant for every index 0..91 of the scenario's 86-90 calls (whatever the call's kind: write, seek, flush), "
             "all in the thorough tier, a spread incl. the header back-patching region in quick - while payload bytes, times and "
             "permissions are symbolic. Decided per variant: no CBMC panic/overflow/unwrap check is reachable in any call after "
             "the fault, incl. the implicit finalisation on drop; the fault is reported by some call; the fault-free variant "
             "yields byte-for-byte the reference archive.",
        note=TRUST + "One fault per run; writer scenario plus new_append re-reading a one-entry archive with a read/seek fault at calls "
             "22/26/30/34/38 (inside the central-directory re-read: an error, never a writer that lost the old entries); reader "
             "open/read under faults is not built; the "
             "fault position is enumerated by variants, not a solver variable (a symbolic index merges failed and healthy writer "
             "states and was not dischargeable: > 10 GB).",
        design_ref="DESIGN.md §5 C11, §11",
    ),
    "C12": dict(
        text="Bounded model checking of concrete misuse sequences with symbolic parameters through the public writer API: "
             "write before any file, after a directory, after a symlink and after finish all return Err; end_extra_data "
             "without extra data returns Err; start_file/add_directory/finish after finish return Err and leave the archive "
             "unchanged; a new entry implicitly closes the previous one; no call panics; the finished archive holds exactly "
             "the entries whose creation succeeded with exactly the bytes whose write succeeded (APPNOTE reference judge).",
        note=TRUST + "Depth is that of the listed sequences (<= 7 calls); the inductive one-step formulation of DESIGN.md §5 C12 and "
             "unsupported-method/level refusals are not discharged within the caps (tier 'dev').",
        design_ref="DESIGN.md §5 C12, §11",
    ),
    "C13": dict(
        text="Bounded model checking of append, compositional in two solver-checked halves: (a) ZipWriter::new_append on "
             "archives from the independent builder (one entry with all metadata symbolic - any method number, times, CRC, "
             "declared size, attributes, host system, data-descriptor flag - with 0 or 2 bytes of prepended data, and the "
             "empty archive): the writer comes back positioned on the old central directory, idle, raw flag set, holding "
             "exactly the builder's entry values (absolute header offset) and the old comment; (b) from exactly that state "
             "with EVERY scalar of the old entry symbolic (64-bit sizes/offset, so ZIP64 old entries are included) over an "
             "arbitrary existing file image: adding one stored entry or nothing and finishing leaves every byte in front of "
             "the old directory untouched, re-emits the old entry first with all its values (strict ZIP64 decoding), then the "
             "new entry, with exact counts/sizes/offsets and the old comment.",
        note=TRUST + "(a) asserts every field (b) assumes; one round, one old entry, one new entry; > 65535 entries, encrypted or "
             "compressed-by-this-crate bases (metadata only matters: method numbers are symbolic) and multi-round histories "
             "beyond one inductive step are outside the bound.",
        design_ref="DESIGN.md §5 C13, §11",
    ),
    "C15": dict(
        text="Bounded model checking of the traditional PKWARE cipher: one encrypt/decrypt step equals an APPNOTE 6.1 "
             "reference written with a bitwise CRC for ALL 2^96 key states x 2^8 bytes and decrypt inverts encrypt (by "
             "induction every length and password); key derivation for passwords of 0-3 bytes; password validation accepts "
             "iff the decrypted 12th header byte equals the CRC high byte / DOS-time high byte (Info-ZIP variant) for "
             "arbitrary key state and header; truncated header is an error; the encrypting writer emits exactly the "
             "encryption of (12-byte header with CRC check byte || content); an encrypted entry opened without a password "
             "is refused with exactly the password-required error.",
        note=TRUST + "'Plaintext does not appear' and 'a wrong password never completes' hold only up to check-byte/CRC collisions and are "
             "replaced by the mechanism obligations above (DESIGN.md §5 C15).",
        design_ref="DESIGN.md §5 C15",
    ),
    "C16": dict(
        text="Bounded model checking of the WinZip-AES reader's control logic only: the 0x9901 extra field decoder maps "
             "every (length, version, vendor, strength, inner method) to the documented mode/method or error; an AES entry "
             "opened without a password yields the password-required error also when the encryption flag is missing; an "
             "entry shorter than salt + verifier + authentication code is refused (no underflow) for every size and "
             "strength; password verification (AES-128, PBKDF2 as environment stub with concrete derived key material and "
             "symbolic verifier bytes) accepts iff BOTH stored verifier bytes equal the derived ones, consumes exactly salt+2 "
             "bytes and leaves compressed_size - (salt+2+10) ciphertext bytes.",
        note=TRUST + "NOT covered: that PBKDF2/HMAC-SHA1/AES-CTR compute the standard algorithms, that tampering is detected (HMAC "
             "unforgeability is not a bounded SAT question), and - not discharged within the caps - the MAC/read state "
             "machine and verifier harnesses (tier 'dev').",
        design_ref="DESIGN.md §5 C16, §7",
    ),
    "C17": dict(
        text="Bounded model checking of the extra-data half: validate_extra_data accepts EXACTLY the well-formed record "
             "sequences without the ZIP64 id, ids <= 31 or APPNOTE-registered ids (table typed from the specification) for "
             "every 3-, 5- and 9-byte block; through the public API (start_file_with_extra_data, write, "
             "end_local_start_central_extra_data, end_extra_data) a record with symbolic unreserved id is stored verbatim in "
             "the local header and the central record (also with large_file, where the local length must cover the ZIP64 "
             "block), data starts where reported, reserved or truncated records - also central-only ones - are refused with "
             "an error; the central header writer stores caller extra data verbatim after the ZIP64 record.",
        note=TRUST + "Alignment half: only the ENUMERATED cases of c17_aligned_enumerated_8_3 (alignment 8 at file offsets 5 and 1, alignment 3 at 0..=2) and, "
             "in the thorough tier, c17_aligned_enumerated_4 (alignment 4 at offsets 0..=3, alignments 0, 1, 2) are decided: data offset multiple of the alignment, padding in a well-formed local-only record, length "
             "as returned, content in place; alignment and offset concrete, data symbolic); 'every alignment 0..65535 at every "
             "preceding offset' is NOT decided (a symbolic padding length is a symbolic-size allocation: harness "
             "c17_aligned_small_any_offset in tier 'dev' does not finish).",
        design_ref="DESIGN.md §5 C17, §11",
    ),
    "C18": dict(
        text="Bounded model checking (Kani/CBMC) of the real DateTime code: from_msdos/datepart/timepart are shown mutually "
             "inverse for all 2^32 (date,time) words and equal to the APPNOTE bit layout; from_date_and_time accepts exactly the "
             "documented ranges for all 2^56 argument tuples; to_time (real `time` crate code) is total on all 2^32 words, errs "
             "exactly on impossible calendar values and try_from(to_time(x)) == x; try_from accepts exactly 1980..=2107. "
             "These queries are loop-free and exhaustive over their whole input space; the archive round trip of the two "
             "words is part of the C01 writer/reader harnesses (symbolic date/time words).",
        note="Trusted: Kani/CBMC/CaDiCaL; the `time` crate is encoded as compiled (not stubbed).",
        design_ref="DESIGN.md §5 C18",
    ),
    "C19": dict(
        text="Bounded model checking of name decoding: cp437::to_char equals the Unicode-consortium CP437 table shipped in "
             "CPython (regenerated at check time) for all 256 bytes; FromCp437 on every 1- and 2-byte string (3 in thorough) "
             "equals the UTF-8 encoding of those code points; through ZipArchive::new a 1-byte name decodes as UTF-8 (lossy) "
             "when bit 11 is set and as CP437 otherwise while name_raw returns the stored byte; the writer stores the name's "
             "UTF-8 bytes and sets bit 11 exactly for non-ASCII names (1-2 byte names incl. a two-byte scalar).",
        note=TRUST + "Names/comments longer than 3 bytes are outside the bound (the decoders are per byte / per scalar).",
        design_ref="DESIGN.md §5 C19",
    ),
}
CLAIMS["C20"] = dict(
    text="Bounded model checking of the single-threaded half only: two handles (ZipArchive::clone) on an archive state with "
         "prepended data and symbolic payload bytes; handle A opens an entry and reads part of it, the clone opens the same "
         "entry (data start already cached in the shared metadata) and reads, A resumes: each handle observes exactly the bytes "
         "and data_start() it would observe alone, for all payload values.",
    note=TRUST + "NOT covered and not coverable by this technique: concurrent use from several OS threads and Send/Sync (Kani does not "
         "model threads; Send/Sync is a type-checker fact). One interleaving script of 2 opens and 3 reads; the archive state is "
         "constructed (what ZipArchive::new produces is shown by the C03 harnesses).",
    design_ref="DESIGN.md §5 C20, §11",
)
for _c in CLAIMS.values():
    _c.setdefault("technique", TECH)

PENDING = "solver-based harnesses exist (tier 'dev' in /verif/harness) but are not discharged within the time/memory caps on the unchanged tree, so no check is registered; see DESIGN.md §11"

# property -> reason (for properties not claimed)
NOT_APPLICABLE = {
    "C07": "file-system effects of extract() are syscalls behind FFI with no encodable model; the reduced path-confinement harness under fs stubs is not yet discharged; see DESIGN.md §5 C07",
    "C14": PENDING,
}

ASSUME = {}
OUTSIDE = {
    "C01": "names > 2 bytes, payloads > 3 bytes, > 2 entries (in particular > 65535), every compressing method and level, finish-by-drop vs finish() byte equality, by_name lookup",
    "C02": "name/comment/extra lengths >= 65536 (length-limit clause), CPython zipfile / unzip -t as judges, encrypted/aligned/raw entries (judged under C15/C17/C14)",
    "C03": "by_name and duplicate names, > 1 entry on the ZipArchive::new path, compressed payloads, junk prefixes > 2 bytes on the open path (the search loop itself is covered over every 24/28-byte input), CPython-produced archives",
    "C04": "streams longer than 3 bytes; the decoders themselves; the streaming reader's gate (same type, generic harness applies)",
    "C05": "inputs larger than the stated buffers, peak-heap bound, new_append, by_name, streaming reader over fully hostile headers, real AES primitives",
    "C06": "mangled_name / file_name_sanitized (not discharged), names > 4 bytes, Unicode beyond the five byte classes, Windows path semantics",
    "C08": "entry-count thresholds (65534..65537 entries), multi-GiB real payloads (sizes are constructed symbolically), the 4 GiB write guard",
    "C09": "ZipCrypto and AES readers, short-write sinks, decoders' own buffering, streaming reader",
    "C10": "agreement of names/sizes/contents with the seekable reader, the visitor API, entries > 3 bytes, hostile headers",
    "C11": "faults on the read side (open/read/append), several faults, Interrupted/WouldBlock semantics, scenarios with extra data / encryption / raw copy",
    "C12": "sequences other than the listed ones, raw copy, compression levels, unsupported methods",
    "C13": "more than one old entry / one new entry / one round in a single query, > 65535 entries, CPython-built bases",
    "C17": "start_file_aligned beyond the enumerated cases (alignment 4 at offsets 0..=3; 0, 1, 2), extra data > 9 bytes, local-and-central split with non-empty local part (dev)",
    "C15": "passwords > 3 bytes in derive (the per-byte step is proven for every state, so longer passwords follow by induction), compressing methods under encryption",
    "C16": "cryptographic strength, real PBKDF2/HMAC/AES equivalence to the standards, tamper detection, MAC state machine",
    "C20": "multi-threaded use, Send/Sync, longer interleaving scripts, more than two handles",
    "C18": "nothing inside DateTime; the archive-level round trip of timestamps is part of C01/C02",
    "C19": "names/comments longer than 3 bytes, file comments",
}
