#!/usr/bin/env python3
"""Driver for the solver-based checks of zip-rs/zip (Kani/CBMC).

  check <PROP> [--tier quick|thorough] [--only <harness-substr>] [--jobs N]
  check --replay <path>
  check --list
  check --setup

Exit codes: 0 = every registered harness got a definite SUCCESS verdict (or only known findings
failed); 1 = a replayed counterexample that is not a known finding (prints VIOLATION line);
2 = inconclusive (timeout / memory cap / vacuous cover / non-reproducing counterexample).
The goto-program is regenerated from /repo's working tree on every invocation (cargo kani).
"""
import argparse
import hashlib
import json
import os
import random
import re
import shutil
import signal
import subprocess
import sys
import threading
import time

HERE = os.path.dirname(os.path.dirname(os.path.realpath(__file__)))
REPO = os.environ.get("ZIP_VERIF_REPO", "/repo")
HARNESS_DIR = os.environ.get("ZIP_VERIF_HARNESS_SRC") or os.path.join(HERE, "harness")
WORK = os.path.join(HERE, ".work")
OUT = os.environ.get("ZIP_VERIF_OUT") or os.path.join(WORK, "out")
# Target-dir slots are per source tree: kani-driver picks up harness artifacts of EVERY build of the
# `zip` package it finds in a target dir, so a slot that was also used for another checkout (the
# seeded-change worktrees) can hand back a stale goto binary of that other tree.
SLOT_TAG = "" if REPO == "/repo" else "_" + hashlib.sha1(REPO.encode()).hexdigest()[:8]
# developer overrides (seeded-change matrix): the registered commands never set these
EVID = os.environ.get("ZIP_VERIF_EVID") or os.path.join(HERE, "evidence")
REPLAYS = os.environ.get("ZIP_VERIF_REPLAYS") or os.path.join(HERE, "replays")
KNOWN = os.path.join(HERE, "known_findings.json")

FEATURES = {
    "base": ["--no-default-features", "--features", "time"],
    "aes": ["--no-default-features", "--features", "time,aes-crypto"],
    "unreserved": ["--no-default-features", "--features", "time,unreserved"],
}

MODPATH = {
    "h_write.rs": "write::verif_h",
    "h_read.rs": "read::verif_h",
    "h_stream.rs": "read::stream::verif_h",
    "h_types.rs": "types::verif_h",
    "h_spec.rs": "spec::verif_h",
    "h_zipcrypto.rs": "zipcrypto::verif_h",
    "h_crc32.rs": "crc32::verif_h",
    "h_cp437.rs": "cp437::verif_h",
    "h_aes.rs": "aes::verif_h",
    "h_aes_ctr.rs": "aes_ctr::verif_h",
    "h_compression.rs": "compression::verif_h",
}

# "dev": harnesses under development (not yet discharged within the caps); never selected by a registered command
TIER_RANK = {"quick": 0, "thorough": 1, "dev": 9}


# --------------------------------------------------------------------------------------------
# Registry: harnesses are declared in the harness sources by an annotation line
#   // @h prop=C18[,C01] tier=quick [feat=base] [t=300] [mem=8] [cbmc="--flag v"] [name=x]
# followed (within a few lines) by `fn <name>`; preceding `///` lines are the description.
# --------------------------------------------------------------------------------------------
def parse_registry():
    reg = []
    for fn in sorted(os.listdir(HARNESS_DIR)):
        if not fn.startswith("h_") or not fn.endswith(".rs"):
            continue
        lines = open(os.path.join(HARNESS_DIR, fn)).read().split("\n")
        doc = []
        i = 0
        while i < len(lines):
            ln = lines[i].strip()
            if ln.startswith("///"):
                doc.append(ln[3:].strip())
            elif ln.startswith("// @h "):
                ann = {}
                for m in re.finditer(r'(\w+)=("([^"]*)"|\S+)', ln[6:]):
                    ann[m.group(1)] = m.group(3) if m.group(3) is not None else m.group(2)
                name = ann.get("name")
                if not name:
                    for j in range(i + 1, min(i + 12, len(lines))):
                        m = re.search(r"\bfn\s+(\w+)\s*\(", lines[j]) or re.search(r"^\s*\w+!\(\s*(\w+)\s*,", lines[j])
                        if m:
                            name = m.group(1)
                            break
                if not name:
                    raise SystemExit(f"registry: no fn after annotation {fn}:{i+1}")
                unwind = None
                for j in range(max(0, i - 6), min(i + 12, len(lines))):
                    m = re.search(r"kani::unwind\((\d+)\)", lines[j])
                    if m:
                        unwind = int(m.group(1))
                if unwind is None and i + 1 < len(lines):
                    m = re.search(r"^\s*api_harness!\(\s*\w+\s*,\s*(\d+)\s*,", lines[i + 1])
                    if m:
                        unwind = int(m.group(1))
                feats = ann.get("feat", "base").split(",")
                for fi, feat in enumerate(feats):
                    # one registry entry per feature set the harness is compiled under
                    reg.append(
                        {
                            "name": name if fi == 0 else f"{name}__{feat}",
                            "file": fn,
                            "path": MODPATH[fn] + "::" + name,
                            "props": ann.get("prop", "").split(","),
                            "tier": ann.get("tier", "quick"),
                            "feat": feat,
                            "timeout": int(ann.get("t", "300")),
                            "mem": int(ann.get("mem", "6")),
                            "cbmc": ann.get("cbmc", ""),
                            "uws": ann.get("uws", ""),
                            "unwind": unwind,
                            "desc": " ".join(doc).strip() + ("" if len(feats) == 1 else f" [features: {feat}]"),
                            "line": i + 1,
                        }
                    )
                doc = []
            elif ln == "" or ln.startswith("#["):
                pass
            else:
                doc = []
            i += 1
    names = [h["name"] for h in reg]
    dup = set(n for n in names if names.count(n) > 1)
    if dup:
        raise SystemExit(f"registry: duplicate harness names {dup}")
    return reg


# --------------------------------------------------------------------------------------------
# Running one harness
# --------------------------------------------------------------------------------------------
class SlotPool:
    """Target-dir slots shared by all driver processes on this machine (flock per slot)."""
    NSLOTS = 16

    def __init__(self, n):
        self.lock = threading.Lock()
        self.held = {}

    def get(self):
        import fcntl

        os.makedirs(WORK, exist_ok=True)
        while True:
            with self.lock:
                for s in range(self.NSLOTS):
                    if s in self.held:
                        continue
                    f = open(os.path.join(WORK, f"slot{s}.lock"), "w")
                    try:
                        fcntl.flock(f, fcntl.LOCK_EX | fcntl.LOCK_NB)
                    except OSError:
                        f.close()
                        continue
                    self.held[s] = f
                    return s
            time.sleep(0.5)

    def put(self, s):
        import fcntl

        with self.lock:
            f = self.held.pop(s, None)
        if f:
            fcntl.flock(f, fcntl.LOCK_UN)
            f.close()


def gen_dir():
    d = os.path.join(WORK, "gen")
    os.makedirs(d, exist_ok=True)
    return d


def generate_tables():
    """Reference tables generated at check time from independent sources (CPython's cp437 codec)."""
    d = gen_dir()
    tab = [ord(bytes([b]).decode("cp437")) for b in range(256)]
    body = "pub const REF_CP437: [u32; 256] = [" + ", ".join(str(x) for x in tab) + "];\n"
    p = os.path.join(d, "cp437_table.rs")
    if not os.path.exists(p) or open(p).read() != body:
        open(p, "w").write(body)


def base_env(harness_dir=HARNESS_DIR):
    env = dict(os.environ)
    env["CARGO_NET_OFFLINE"] = "true"
    env["ZIP_VERIF_HARNESS_DIR"] = harness_dir
    env["ZIP_VERIF_GEN_DIR"] = gen_dir()
    env.pop("CARGO_TARGET_DIR", None)
    return env


def kani_cmd(h, target_dir, json_out, playback=False, unwindset=""):
    cmd = ["cargo", "kani", "--manifest-path", os.path.join(REPO, "Cargo.toml")]
    cmd += FEATURES[h["feat"]]
    cmd += ["--target-dir", target_dir, "-Z", "stubbing", "-Z", "unstable-options"]
    # Kani's default reachability assertions fail by design and CBMC's JSON UI builds a full
    # trace per failed property (3.5x wall time, 5 GB in kani-driver); reachability is witnessed
    # by the explicit kani::cover! statements instead.
    cmd += ["--no-assertion-reach-checks"]
    if playback:
        cmd += ["-Z", "concrete-playback", "--concrete-playback=print"]
    else:
        cmd += ["--export-json", json_out]
    cmd += ["--exact", "--harness", h["path"]]
    cbmc = []
    if "--max-field-sensitivity-array-size" not in h["cbmc"]:
        cbmc = ["--max-field-sensitivity-array-size", "4096"]
    if h["cbmc"]:
        cbmc += h["cbmc"].split()
    if unwindset:
        cbmc += ["--unwindset", unwindset]
    cmd += ["--cbmc-args"] + cbmc
    return cmd


def resolve_unwindset(h, tdir, log_path):
    """Per-loop unwinding bounds (annotation uws="<regex>:<n>;<regex>:<n>"): the loop identifiers are
    looked up in the goto binary compiled from the CURRENT tree (codegen-only pass + goto-instrument
    --show-loops), so a bound follows its loop through renames of mangled hashes. A pattern that
    matches no loop is dropped; soundness is kept by the unwinding assertions of the main run."""
    if not h.get("uws"):
        return ""
    cmd = ["cargo", "kani", "--manifest-path", os.path.join(REPO, "Cargo.toml")] + FEATURES[h["feat"]]
    cmd += ["--target-dir", tdir, "-Z", "stubbing", "-Z", "unstable-options", "--no-assertion-reach-checks"]
    cmd += ["--exact", "--harness", h["path"], "--only-codegen"]
    run_proc(cmd, base_env(), log_path + ".codegen", 900, 16)
    suffix = f"{len(h['path'].split('::')[-1])}{h['path'].split('::')[-1]}.out"
    cands = []
    for root, _, files in os.walk(os.path.join(tdir, "kani")):
        for fn in files:
            if fn.endswith(suffix) and not fn.endswith(".symtab.out"):
                cands.append(os.path.join(root, fn))
    if not cands:
        return ""
    cands.sort(key=os.path.getmtime)
    p = subprocess.run(["goto-instrument", "--show-loops", cands[-1]], stdout=subprocess.PIPE, stderr=subprocess.DEVNULL, text=True)
    loops = re.findall(r"^Loop (\S+):", p.stdout, re.M)
    funcs = None
    out = []
    for spec in h["uws"].split(";"):
        rx, _, n = spec.rpartition(":")
        if rx.startswith("fn:"):
            # recursion bound: match the pretty function name, bound the mangled identifier
            if funcs is None:
                q = subprocess.run(["goto-instrument", "--list-goto-functions", cands[-1]], stdout=subprocess.PIPE, stderr=subprocess.DEVNULL, text=True)
                funcs = re.findall(r"^(\S.*?) /\* (\S+?),? ?(?:body not available)? ?\*/$", q.stdout, re.M)
            for pretty, mangled in funcs:
                if re.search(rx[3:], pretty):
                    out.append(f"{mangled}:{n}")
            continue
        for lp in loops:
            if re.search(rx, lp):
                out.append(f"{lp}:{n}")
    return ",".join(out)



def _limit(mem_gb):
    def f():
        import resource

        os.setsid()
        lim = mem_gb * (1 << 30)
        resource.setrlimit(resource.RLIMIT_AS, (lim, lim))

    return f


def _group_rss_mb(pgid):
    tot = 0
    try:
        for d in os.listdir("/proc"):
            if not d.isdigit():
                continue
            try:
                with open(f"/proc/{d}/stat") as f:
                    st = f.read()
                rp = st.rindex(")")
                fields = st[rp + 2:].split()
                if int(fields[2]) != pgid:  # pgrp
                    continue
                tot += int(fields[21]) * 4096  # rss pages
            except (OSError, ValueError, IndexError):
                continue
    except OSError:
        pass
    return tot / (1 << 20)


PEAK = {}


def run_proc(cmd, env, log_path, timeout, mem_gb, cwd=REPO):
    t0 = time.time()
    peak = 0.0
    with open(log_path, "w") as lf:
        p = subprocess.Popen(cmd, cwd=cwd, env=env, stdout=lf, stderr=subprocess.STDOUT, preexec_fn=_limit(mem_gb))
        timed_out = False
        while True:
            try:
                p.wait(timeout=3)
                break
            except subprocess.TimeoutExpired:
                peak = max(peak, _group_rss_mb(p.pid))
                if time.time() - t0 > timeout:
                    timed_out = True
                    break
        # always reap the whole process group (cbmc children outlive cargo-kani)
        try:
            os.killpg(p.pid, signal.SIGKILL)
        except ProcessLookupError:
            pass
        p.wait()
    PEAK[log_path] = round(peak)
    return p.returncode, timed_out, time.time() - t0


def classify(h, rc, timed_out, wall, json_out, log_path):
    """Return a result dict: verdict in {pass, fail, inconclusive}."""
    res = {
        "name": h["name"],
        "path": h["path"],
        "file": h["file"],
        "feat": h["feat"],
        "unwind": h["unwind"],
        "desc": h["desc"],
        "wall_s": round(wall, 2),
        "verdict": "inconclusive",
        "reason": "",
        "failed_checks": [],
        "checks_total": 0,
        "checks_passed": 0,
        "covers_satisfied": 0,
        "covers_total": 0,
        "stats": {},
        "log": log_path,
        "peak_rss_mb": PEAK.get(log_path),
    }
    log = ""
    try:
        log = open(log_path, errors="replace").read()
    except OSError:
        pass
    if timed_out:
        res["reason"] = f"timeout after {h['timeout']}s"
        return res
    data = None
    if os.path.exists(json_out):
        try:
            data = json.load(open(json_out))
        except Exception as e:  # noqa
            res["reason"] = f"unreadable json export: {e}"
    if data is None:
        if re.search(r"^error(\[E\d+\])?:", log, re.M):
            res["reason"] = "build error (see log)"
            res["build_error"] = True
        elif "out of memory" in log.lower() or "bad_alloc" in log or "Status: ERROR" in log:
            res["reason"] = "solver/resource error (memory cap)"
        elif not res["reason"]:
            res["reason"] = f"no result (rc={rc})"
        return res
    vr = data.get("verification_results", {}).get("results", [])
    mine = [r for r in vr if r.get("harness_id") == h["path"]]
    if not mine:
        res["reason"] = "harness not found in results (name mismatch?)"
        return res
    r = mine[0]
    checks = r.get("checks") or []
    for c in data.get("cbmc") or []:
        if c and c.get("harness_id") == h["path"]:
            st = c.get("cbmc_stats") or {}
            res["stats"] = {
                "symex_s": st.get("runtime_symex_s"),
                "solver_s": st.get("runtime_decision_procedure_s"),
                "vccs": st.get("vccs_generated"),
                "vccs_remaining": st.get("vccs_remaining"),
                "program_size": st.get("size_program_expression"),
            }
    m = re.search(r"(\d+) variables, (\d+) clauses", log)
    if m:
        res["stats"]["vars"] = int(m.group(1))
        res["stats"]["clauses"] = int(m.group(2))
    failed, undet, unwind_fail = [], 0, False
    cov_tot = cov_sat = 0
    for c in checks:
        st = str(c.get("status", "")).upper()
        desc = c.get("description", "")
        prop_class = c.get("category") or ""
        loc = c.get("location") or {}
        if str(prop_class).lower() == "cover" or st in ("SATISFIED", "UNSATISFIABLE"):
            cov_tot += 1
            if st == "SATISFIED":
                cov_sat += 1
            continue
        res["checks_total"] += 1
        if st == "SUCCESS":
            res["checks_passed"] += 1
        elif st in ("FAILURE", "FAILED"):
            fc = {
                "description": desc,
                "function": c.get("function", ""),
                "class": prop_class,
                "location": loc,
            }
            if "unwinding assertion" in desc:
                unwind_fail = True
            failed.append(fc)
        elif st == "UNREACHABLE":
            res["checks_passed"] += 1
        else:
            undet += 1
    res["covers_total"] = cov_tot
    res["covers_satisfied"] = cov_sat
    res["failed_checks"] = failed
    status = str(r.get("status", "")).lower()
    if unwind_fail:
        res["reason"] = "unwinding assertion failed: bound too small for this tree (no verdict on later paths)"
        return res
    if failed:
        res["verdict"] = "fail"
        return res
    if undet:
        res["reason"] = f"{undet} checks undetermined"
        return res
    if status != "success":
        res["reason"] = f"kani status {status} without failed checks (resource error?)"
        return res
    if cov_tot and cov_sat != cov_tot:
        res["reason"] = f"vacuity: only {cov_sat} of {cov_tot} reachability witnesses (cover!) satisfied"
        return res
    res["verdict"] = "pass"
    return res


def run_harness(h, pool, tier):
    slot = pool.get()
    try:
        tdir = os.path.join(WORK, f"slot{slot}{SLOT_TAG}")
        os.makedirs(tdir, exist_ok=True)
        out_dir = OUT
        os.makedirs(out_dir, exist_ok=True)
        json_out = os.path.join(out_dir, h["name"] + ".json")
        log_path = os.path.join(out_dir, h["name"] + ".log")
        if os.path.exists(json_out):
            os.remove(json_out)
        uws = resolve_unwindset(h, tdir, log_path)
        cmd = kani_cmd(h, tdir, json_out, unwindset=uws)
        # hard cap = twice the expected peak (the annotation, used for scheduling) and at least 12 GB:
        # a changed tree may need more than the unchanged one, and running out of memory is
        # reported as inconclusive, which would hide a violation
        rc, to, wall = run_proc(cmd, base_env(), log_path, h["timeout"], max(2 * h["mem"], 12))
        res = classify(h, rc, to, wall, json_out, log_path)
        if uws:
            res["unwindset"] = uws
        return res
    finally:
        pool.put(slot)


# --------------------------------------------------------------------------------------------
# Known findings
# --------------------------------------------------------------------------------------------
def load_known():
    if not os.path.exists(KNOWN):
        return []
    return json.load(open(KNOWN)).get("findings", [])


def match_known(known, prop, hname, fc):
    for k in known:
        if k.get("property") != prop:
            continue
        if k.get("harness") and k["harness"] != hname:
            continue
        chk = k.get("check", {})
        if chk.get("function_contains") and chk["function_contains"] not in fc.get("function", ""):
            continue
        if chk.get("description_contains") and chk["description_contains"] not in fc.get("description", ""):
            continue
        return k
    return None


# --------------------------------------------------------------------------------------------
# Replay (concrete playback of the solver's counterexample against the real code)
# --------------------------------------------------------------------------------------------
def extract_playback_tests(log):
    """(harness, body, is_cover) for every generated playback test; tests for failed checks first
    (Kani also prints one test per satisfied cover!, which is a witness, not a counterexample)."""
    tests = []
    for m in re.finditer(r"Concrete playback unit test for `([^`]+)`:\s*```\n(.*?)```", log, re.S):
        body = m.group(2)
        cm = re.search(r"/// Check for `([^`]*)`", body)
        tests.append((m.group(1), body, bool(cm and cm.group(1) == "cover")))
    tests.sort(key=lambda t: t[2])
    return tests


def make_replay(prop, h, pool):
    """Re-run the failing harness with concrete playback; returns ([replay paths], note)."""
    slot = pool.get()
    try:
        tdir = os.path.join(WORK, f"slot{slot}{SLOT_TAG}")
        out_dir = OUT
        log_path = os.path.join(out_dir, h["name"] + ".playback.log")
        cmd = kani_cmd(h, tdir, None, playback=True, unwindset=resolve_unwindset(h, tdir, log_path))
        run_proc(cmd, base_env(), log_path, max(3 * h["timeout"], 900), max(3 * h["mem"], 24))
        log = open(log_path, errors="replace").read()
    finally:
        pool.put(slot)
    tests = [t for t in extract_playback_tests(log) if not t[2]]
    if not tests:
        return [], "no concrete playback test for a failed check produced (see %s)" % log_path
    os.makedirs(REPLAYS, exist_ok=True)
    paths = []
    for hpath, body, _ in tests[:4]:
        digest = hashlib.sha1(body.encode()).hexdigest()[:10]
        path = os.path.join(REPLAYS, f"{prop}_{h['name']}_{digest}.rs")
        tname = re.search(r"fn (kani_concrete_playback_\w+)", body).group(1)
        with open(path, "w") as f:
            f.write(f"// REPLAY property={prop} harness={h['name']} file={h['file']} feat={h['feat']} test={tname}\n")
            f.write("// Counterexample chosen by the solver (CBMC via Kani) for the harness above; re-executed\n")
            f.write("// against the real code with: ./check --replay <this file>\n")
            f.write(body)
        paths.append(path)
    return paths, f"{len(tests)} counterexample(s)"


def run_replay(path, quiet=False):
    """Execute a replay file concretely (cargo kani playback). Returns (reproduced, output_tail)."""
    head = open(path).readline()
    m = re.match(r"// REPLAY property=(\S+) harness=(\S+) file=(\S+) feat=(\S+) test=(\S+)", head)
    if not m:
        raise SystemExit("not a replay file: " + path)
    prop, hname, hfile, feat, tname = m.groups()
    body = open(path).read()
    rdir = os.path.join(WORK, f"replay_{os.getpid()}_{threading.get_ident()}")
    hdir = os.path.join(rdir, "harness")
    if os.path.exists(rdir):
        shutil.rmtree(rdir)
    shutil.copytree(HARNESS_DIR, hdir)
    with open(os.path.join(hdir, hfile), "a") as f:
        f.write("\n" + body + "\n")
    env = base_env(hdir)
    env["CARGO_TARGET_DIR"] = os.path.join(WORK, "replay_target")
    env["RUST_BACKTRACE"] = "0"
    cmd = ["cargo", "kani", "playback", "-Z", "concrete-playback", "--manifest-path", os.path.join(REPO, "Cargo.toml")]
    cmd += FEATURES[feat] + ["--lib", "--", tname]
    log_path = os.path.join(rdir, "playback.log")
    rc, to, wall = run_proc(cmd, env, log_path, 1200, 24)
    out = open(log_path, errors="replace").read()
    shutil.rmtree(rdir, ignore_errors=True)
    ran = re.search(r"test result: (\w+)\. (\d+) passed; (\d+) failed", out)
    reproduced = bool(ran and int(ran.group(3)) >= 1)
    not_run = not ran or (int(ran.group(2)) + int(ran.group(3)) == 0)
    tail = "\n".join(l for l in out.split("\n") if "panicked" in l or "assertion" in l or "overflow" in l or "test result" in l)[-2000:]
    if not quiet:
        print(tail)
    return reproduced, not_run, tail


# --------------------------------------------------------------------------------------------
# Check a property
# --------------------------------------------------------------------------------------------
def schedule(harnesses, jobs, tier, mem_total_gb=int(os.environ.get("VERIF_MEM_TOTAL", "54"))):
    pool = SlotPool(jobs)
    results = {}
    lock = threading.Condition()
    state = {"mem": 0, "running": 0}
    pending = list(harnesses)

    def worker(h):
        try:
            r = run_harness(h, pool, tier)
        except Exception as e:  # noqa
            r = {"name": h["name"], "path": h["path"], "verdict": "inconclusive", "reason": f"driver error {e!r}",
                 "failed_checks": [], "checks_total": 0, "checks_passed": 0, "covers_total": 0,
                 "covers_satisfied": 0, "stats": {}, "wall_s": 0, "desc": h["desc"], "feat": h["feat"],
                 "unwind": h["unwind"], "file": h["file"]}
        with lock:
            results[h["name"]] = r
            state["mem"] -= h["mem"]
            state["running"] -= 1
            lock.notify_all()
        sys.stderr.write(f"  [{r['verdict']:>12}] {h['name']} {r.get('wall_s',0)}s rss={r.get('peak_rss_mb')}MB {r.get('reason','')}\n")

    threads = []
    with lock:
        while pending:
            started = False
            for h in list(pending):
                if state["running"] < jobs and (state["mem"] + h["mem"] <= mem_total_gb or state["running"] == 0):
                    pending.remove(h)
                    state["mem"] += h["mem"]
                    state["running"] += 1
                    t = threading.Thread(target=worker, args=(h,))
                    t.start()
                    threads.append(t)
                    started = True
            if pending and not started:
                lock.wait()
            elif pending:
                continue
    for t in threads:
        t.join()
    return results, pool


def functions_encoded(results):
    """zip:: functions the solver actually reached, harvested from the check list of each run."""
    fns = set()
    for r in results.values():
        jp = os.path.join(OUT, r["name"] + ".json")
        try:
            data = json.load(open(jp))
        except Exception:  # noqa
            continue
        for vr in data.get("verification_results", {}).get("results", []):
            for c in vr.get("checks", []):
                f = c.get("function", "")
                if f and "verif_h" not in f and "verif_kit" not in f:
                    fns.add(f)
    crate_mods = ("types::", "write::", "read::", "spec::", "zipcrypto::", "crc32::", "cp437::", "aes::",
                  "aes_ctr::", "compression::", "result::", "<types::", "<write::", "<read::", "<spec::",
                  "<zipcrypto::", "<crc32::", "<cp437::", "<aes::", "<aes_ctr::", "<compression::", "<result::")
    own = sorted(f for f in fns if f.startswith(crate_mods))
    lib = sorted(f for f in fns if not f.startswith(crate_mods))
    return own + lib


def check_property(prop, tier, only=None, jobs=12):
    t0 = time.time()
    seed = int(os.environ.get("VERIF_SEED", "0") or 0)
    generate_tables()
    reg = parse_registry()
    sel = [h for h in reg if prop in h["props"] and TIER_RANK[h["tier"]] <= TIER_RANK[tier]]
    if only:
        sel = [h for h in sel if any((o[:-1] == h["name"]) if o.endswith("$") else (o in h["name"]) for o in only.split(","))]
    if not sel:
        print(f"no harness registered for {prop} at tier {tier}")
        return 2
    rnd = random.Random(seed)
    rnd.shuffle(sel)
    # longest first inside the shuffled order helps the tail; keep seed influence on ties
    sel.sort(key=lambda h: -h["timeout"])
    sys.stderr.write(f"{prop} [{tier}] {len(sel)} harnesses, jobs={jobs}\n")
    results, pool = schedule(sel, jobs, tier)
    known = load_known()
    byname = {h["name"]: h for h in sel}
    violations, known_hits, inconclusive = [], [], []
    for name, r in sorted(results.items()):
        if r["verdict"] == "inconclusive":
            inconclusive.append((name, r["reason"]))
        elif r["verdict"] == "fail":
            unknown = []
            for fc in r["failed_checks"]:
                k = match_known(known, prop, name, fc)
                if k:
                    known_hits.append((k, name, fc))
                else:
                    unknown.append(fc)
            if unknown:
                violations.append((name, unknown))
    out_lines = []
    seen_known = set()
    for k, name, fc in known_hits:
        key = (k.get("id") or k.get("what"), name)
        if key in seen_known:
            continue
        seen_known.add(key)
        out_lines.append(f"KNOWN-FINDING: property={prop} {k.get('what','')} [harness {name}: {fc['description']}]")
    confirmed = []
    for name, fcs in violations:
        h = byname[name]
        paths, note = make_replay(prop, h, pool)
        if not paths:
            inconclusive.append((name, "counterexample found but no playback test: " + note + "; failed: " + fcs[0]["description"]))
            continue
        hit = None
        for path in paths:
            reproduced, not_run, tail = run_replay(path, quiet=True)
            if reproduced:
                hit = (path, tail)
                break
        for path in paths:
            if not hit or path != hit[0]:
                try:
                    os.remove(path)
                except OSError:
                    pass
        if hit:
            confirmed.append((name, fcs, hit[0], hit[1]))
        else:
            inconclusive.append((name, f"counterexample did not reproduce concretely ({len(paths)} playback test(s) tried); failed check: {fcs[0]['description']}"))
    for name, fcs, path, tail in confirmed:
        out_lines.append(f"VIOLATION property={prop} replay={path}")
        for fc in fcs[:5]:
            loc = fc.get("location") or {}
            out_lines.append(f"  harness={name} check=\"{fc['description']}\" at {fc.get('function','')} {loc}")
    for name, why in inconclusive:
        out_lines.append(f"INCONCLUSIVE property={prop} harness={name}: {why}")
    wall = time.time() - t0
    write_evidence(prop, tier, seed, sel, results, confirmed, known_hits, inconclusive, wall)
    for l in out_lines:
        print(l)
    npass = sum(1 for r in results.values() if r["verdict"] == "pass")
    print(f"{prop} [{tier}]: {npass}/{len(sel)} harnesses verified, {len(confirmed)} violation(s), "
          f"{len(seen_known)} known finding(s), {len(inconclusive)} inconclusive, {wall:.0f}s")
    if confirmed:
        return 1
    if inconclusive:
        return 2
    return 0


def write_evidence(prop, tier, seed, sel, results, confirmed, known_hits, inconclusive, wall):
    os.makedirs(EVID, exist_ok=True)
    evals = sum(r.get("checks_passed", 0) + len(r.get("failed_checks", [])) + r.get("covers_total", 0) for r in results.values())
    nontrivial = sum(1 for r in results.values() if r["verdict"] in ("pass", "fail") and r.get("covers_satisfied", 0) >= 1)
    rnd = random.Random(seed)
    hs = []
    for h in sel:
        r = results.get(h["name"], {})
        hs.append(
            {
                "harness": h["path"],
                "what": h["desc"],
                "instantiation_features": " ".join(FEATURES[h["feat"]]),
                "unwind": h["unwind"],
                "cbmc_args": ("" if "--max-field-sensitivity-array-size" in h["cbmc"] else "--max-field-sensitivity-array-size 4096 ") + h["cbmc"],
                "unwindset": r.get("unwindset", ""),
                "verdict": r.get("verdict"),
                "reason": r.get("reason", ""),
                "checks_decided": r.get("checks_passed", 0) + len(r.get("failed_checks", [])),
                "checks_failed": [fc["description"] + " @ " + fc.get("function", "") for fc in r.get("failed_checks", [])],
                "covers_satisfied": f"{r.get('covers_satisfied',0)}/{r.get('covers_total',0)}",
                "solver_stats": r.get("stats", {}),
                "wall_s": r.get("wall_s"),
                "peak_rss_mb": r.get("peak_rss_mb"),
                "cap": {"timeout_s": h["timeout"], "mem_gb": max(2 * h["mem"], 12)},
            }
        )
    samples = list(hs)
    rnd.shuffle(samples)
    solver_s = sum((r.get("stats", {}).get("solver_s") or 0) for r in results.values())
    symex_s = sum((r.get("stats", {}).get("symex_s") or 0) for r in results.values())
    ev = {
        "property_id": prop,
        "tier": tier,
        "seed": seed,
        "level": "model_checking",
        "coverage": {
            "evaluations": evals,
            "distinct_nontrivial": nontrivial,
            "rule": "one evaluation = one CBMC check (assertion / overflow / bounds / unwrap / unwinding assertion / cover) "
                    "that received a definite SAT/UNSAT verdict over ALL values of the harness's symbolic inputs; "
                    "distinct_nontrivial = number of distinct proof harnesses with a definite verdict whose reachability "
                    "witnesses (kani::cover!) were satisfied, i.e. the asserted paths are actually reachable",
            "samples": samples[:40],
            # model-checking keys, measured by CBMC on this run: states = steps of the unwound program that was
            # symbolically executed (sum of "size of program expression"), transitions = verification conditions
            # generated from it, traces_validated_against_impl = counterexample traces replayed concretely
            "states": int(sum((r.get("stats", {}).get("program_size") or 0) for r in results.values())) or 1,
            "transitions": int(sum((r.get("stats", {}).get("vccs") or 0) for r in results.values())) or 1,
            "traces_validated_against_impl": len(confirmed),
            "exhaustive": False,
            "harnesses_total": len(sel),
            "harnesses_verified": sum(1 for r in results.values() if r["verdict"] == "pass"),
            "functions_encoded": functions_encoded(results)[:400],
            "solver": "CBMC 6.11.0 (bit-blasting, CaDiCaL) via Kani 0.68.0; encoding regenerated from /repo working tree by cargo kani on this run",
            "solver_time_s": round(solver_s, 2),
            "symex_time_s": round(symex_s, 2),
            "bounds": "per harness: loop unwinding bound (kani::unwind, enforced by unwinding assertions), fixed lengths stated in each harness description; all scalar values symbolic",
            "outside_bounds": OUTSIDE.get(prop, ""),
            "inconclusive": [f"{n}: {w}" for n, w in inconclusive],
            "known_findings_hit": sorted(set((k.get("what") or "") for k, _, _ in known_hits)),
            "all_harnesses": hs,
        },
        "assumptions": ASSUME_COMMON + ASSUME.get(prop, []),
        "wall_s": round(wall, 2),
        "violations": len(confirmed),
    }
    tmp = os.path.join(EVID, prop + ".json.tmp")
    json.dump(ev, open(tmp, "w"), indent=1)
    os.replace(tmp, os.path.join(EVID, prop + ".json"))


ASSUME_COMMON = [
    "Kani MIR->goto translation, CBMC symbolic execution/bit-blasting and CaDiCaL are trusted",
    "crate compiled with --no-default-features --features time (plus aes-crypto/unreserved where named): "
    "Deflate/Bzip2/Zstd arms are compiled out; every claim is for Stored (or undecoded) payloads",
    "generic reader/writer parameters are instantiated with harness array-backed Sink/Src/EnvReader types",
    "stubs: alloc::fmt::format -> empty string; crc32fast CPU-feature probe -> portable path; "
    "RandomState::new -> fixed keys; HashMap::insert -> no-op (name lookup outside claims); OffsetDateTime::now_utc -> fixed instant",
]
ASSUME = {}
OUTSIDE = {}
try:
    sys.path.insert(0, os.path.dirname(os.path.realpath(__file__)))
    import claims  # noqa

    ASSUME = claims.ASSUME
    OUTSIDE = claims.OUTSIDE
except Exception:  # noqa
    pass


def warm(jobs):
    """setup: compile the dependencies once per target-dir slot and feature set (codegen only, no
    solving), so that later runs only recompile the zip crate itself."""
    generate_tables()
    reg = parse_registry()
    first = {}
    for h in sorted(reg, key=lambda h: h["timeout"]):
        first.setdefault(h["feat"], h)
    ok = True
    os.makedirs(OUT, exist_ok=True)
    for feat, h in first.items():
        procs = []
        for s in range(SlotPool.NSLOTS):
            tdir = os.path.join(WORK, f"slot{s}{SLOT_TAG}")
            os.makedirs(tdir, exist_ok=True)
            cmd = kani_cmd(h, tdir, os.path.join(OUT, f"warm_{feat}_{s}.json"))
            i = cmd.index("--cbmc-args")
            cmd = cmd[:i] + ["--only-codegen"]
            j = cmd.index("--export-json")
            del cmd[j:j + 2]
            lf = open(os.path.join(OUT, f"warm_{feat}_{s}.log"), "w")
            procs.append((s, subprocess.Popen(cmd, cwd=REPO, env=base_env(), stdout=lf, stderr=subprocess.STDOUT), lf))
        for s, p, lf in procs:
            rc = p.wait()
            lf.close()
            if rc != 0:
                ok = False
                print(f"setup: codegen failed for feature set {feat} in slot {s}, see {lf.name}")
    print("setup:", "ok" if ok else "FAILED")
    return 0 if ok else 1


def main():
    ap = argparse.ArgumentParser()
    ap.add_argument("prop", nargs="?")
    ap.add_argument("--tier", default=os.environ.get("VERIF_TIER", "quick"))
    ap.add_argument("--only")
    ap.add_argument("--jobs", type=int, default=int(os.environ.get("VERIF_JOBS", "12")))
    ap.add_argument("--replay")
    ap.add_argument("--list", action="store_true")
    ap.add_argument("--setup", action="store_true")
    ap.add_argument("--build", action="store_true", help="developer aid: compile all harnesses (codegen only) for every feature set")
    ap.add_argument("--sweep", action="store_true", help="developer aid: run every selected harness once, print a table (no evidence)")
    ap.add_argument("--tcap", type=int, help="sweep: cap every harness timeout at this many seconds")
    ap.add_argument("--memcap", type=int, help="sweep: override every harness memory cap (GB)")
    ap.add_argument("--skip-file", help="sweep: file with harness names (first word per line) to skip")
    a = ap.parse_args()
    os.makedirs(WORK, exist_ok=True)
    if a.list:
        for h in parse_registry():
            print(",".join(h["props"]), h["tier"], h["feat"], h["path"], f"t={h['timeout']} mem={h['mem']}")
        return 0
    if a.setup:
        return warm(a.jobs)
    if a.build:
        generate_tables()
        rc = 0
        for feat in FEATURES:
            if feat == "unreserved":
                continue
            cmd = ["cargo", "kani", "--manifest-path", os.path.join(REPO, "Cargo.toml")] + FEATURES[feat]
            cmd += ["--target-dir", os.path.join(WORK, "build_" + feat), "-Z", "stubbing", "-Z", "unstable-options", "--only-codegen"]
            p = subprocess.run(cmd, cwd=REPO, env=base_env(), stdout=subprocess.PIPE, stderr=subprocess.STDOUT, text=True)
            errs = [l for l in p.stdout.split("\n")]
            if p.returncode != 0:
                rc = 1
                print(f"== build failed [{feat}]")
                out = p.stdout
                i = out.find("error")
                print(out[i:i + 6000])
            else:
                print(f"== build ok [{feat}]")
        return rc
    if a.sweep:
        generate_tables()
        sel = [h for h in parse_registry() if TIER_RANK[h["tier"]] <= TIER_RANK.get(a.tier, 0)]
        if a.only:
            sel = [h for h in sel if any(o in h["name"] for o in a.only.split(","))]
        if a.prop:
            sel = [h for h in sel if a.prop in h["props"]]
        if a.skip_file:
            skip = set(l.split()[0] for l in open(a.skip_file) if l.strip())
            sel = [h for h in sel if h["name"] not in skip]
        for h in sel:
            if a.tcap:
                h["timeout"] = min(h["timeout"], a.tcap)
            if a.memcap:
                h["mem"] = a.memcap
        sel.sort(key=lambda h: -h["timeout"])
        results, _ = schedule(sel, a.jobs, a.tier)
        for n, r in sorted(results.items()):
            print(f"{r['verdict']:>12} {n} wall={r.get('wall_s')} rss={r.get('peak_rss_mb')} {r.get('reason','')} "
                  + "; ".join(fc['description'][:90] for fc in r.get('failed_checks', [])[:3]))
        json.dump(results, open(os.path.join(WORK, f"sweep_{int(time.time())}.json"), "w"), indent=1)
        return 0
    if a.replay:
        generate_tables()
        reproduced, not_run, tail = run_replay(a.replay)
        head = open(a.replay).readline()
        prop = re.search(r"property=(\S+)", head).group(1)
        if reproduced:
            print(f"VIOLATION property={prop} replay={a.replay}")
            return 1
        print("replay did not fail on this tree" + (" (test was not run)" if not_run else ""))
        return 2 if not_run else 0
    if not a.prop:
        ap.error("property id required")
    if a.tier not in TIER_RANK:
        a.tier = "quick"
    return check_property(a.prop, a.tier, a.only, a.jobs)


if __name__ == "__main__":
    sys.exit(main())
