#!/bin/sh
# usage: killrun.sh <substring of harness/driver args>; kills matching vdriver and cbmc processes (never the caller)
pat="$1"
for p in $(pgrep -x python3) $(pgrep -x cbmc) $(pgrep -x cargo-kani) $(pgrep -x kani-driver); do
  [ "$p" = "$$" ] && continue
  if tr '\0' ' ' < /proc/$p/cmdline 2>/dev/null | grep -q -- "$pat"; then kill -9 $p 2>/dev/null; fi
done
