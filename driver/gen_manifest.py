#!/usr/bin/env python3
import json, os, sys
sys.path.insert(0, os.path.dirname(os.path.realpath(__file__)))
import claims
HERE = os.path.dirname(os.path.dirname(os.path.realpath(__file__)))
props = [json.loads(l)["id"] for l in open(os.path.join(HERE, "properties.jsonl"))]
hook_commits = [l.strip() for l in open(os.path.join(HERE, "driver", "hook_commits.txt")) if l.strip()]
checks = []
for p in props:
    if p not in claims.CLAIMS:
        continue
    c = claims.CLAIMS[p]
    checks.append({
        "property_id": p,
        "quick_cmd": f"./check {p} --tier quick",
        "thorough_cmd": f"./check {p} --tier thorough",
        "evidence_file": f"/verif/evidence/{p}.json",
        "replay_cmd_template": "./check --replay {path}",
        "engine": "kani-cbmc",
        "level_claimed": {"category": "model_checking", "text": c["text"], "design_ref": c.get("design_ref", "DESIGN.md §5")},
        "level_note": c["note"],
        "technique": c["technique"],
    })
na = [{"property_id": p, "reason": claims.NOT_APPLICABLE.get(p, "no check built yet in this framework; see DESIGN.md")} for p in props if p not in claims.CLAIMS]
m = {
    "version": 1,
    "setup_cmd": "./check --setup",
    "hooks": {
        "guard": "cfg(kani)",
        "enable": "cargo kani sets --cfg kani; the driver also exports ZIP_VERIF_HARNESS_DIR (harness sources included by the hooks) and ZIP_VERIF_GEN_DIR",
        "baseline_off_cmd": "cd /repo && cargo test --workspace --no-fail-fast --offline",
        "source_commits": hook_commits,
        "add_only": True,
    },
    "engines": [{
        "name": "kani-cbmc",
        "path": "/verif/driver/vdriver.py",
        "serves_properties": [c["property_id"] for c in checks],
        "kind_free_text": "Kani 0.68 proof harnesses compiled into the crate under cfg(kani) (sources in /verif/harness), decided by CBMC 6.11 bit-blasting to CaDiCaL; counterexamples replayed with cargo kani playback",
    }],
    "checks": checks,
    "not_applicable": na,
    "notes": "Exit 0 = all harnesses verified (known findings printed as KNOWN-FINDING); 1 = replayed counterexample (VIOLATION line); 2 = inconclusive (timeout/memory/vacuity), never reported as success or violation.",
}
json.dump(m, open(os.path.join(HERE, "MANIFEST.json"), "w"), indent=1)
print("MANIFEST.json:", len(checks), "checks,", len(na), "not applicable")
