// REPLAY property=C05 harness=c05_aes_reader_new_any_size file=h_aes.rs feat=aes test=kani_concrete_playback_c05_aes_reader_new_any_size_1746301757058031402
// Counterexample chosen by the solver (CBMC via Kani) for the harness above; re-executed
// against the real code with: ./check --replay <this file>
/// Test generated for harness `aes::verif_h::c05_aes_reader_new_any_size` 
///
/// Check for `assertion`: "attempt to subtract with overflow"
///
/// # Warning
///
/// Concrete playback tests combined with stubs or contracts is highly
/// experimental, and subject to change.
///
/// The original harness has stubs which are not applied to this test.
/// This may cause a mismatch of non-deterministic values if the stub
/// creates any non-deterministic value.
/// The execution path may also differ, which can be used to refine the stub
/// logic.

#[test]
fn kani_concrete_playback_c05_aes_reader_new_any_size_1746301757058031402() {
    let concrete_vals: Vec<Vec<u8>> = vec![
        // 0ul
        vec![0, 0, 0, 0, 0, 0, 0, 0],
        // 0
        vec![0],
        // 0
        vec![0],
        // 0
        vec![0],
        // 0
        vec![0],
        // 0
        vec![0],
        // 0
        vec![0],
        // 0
        vec![0],
        // 0
        vec![0],
        // 0
        vec![0],
        // 0
        vec![0],
        // 0
        vec![0],
        // 0
        vec![0],
        // 0
        vec![0],
        // 0
        vec![0],
        // 0
        vec![0],
        // 0
        vec![0],
        // 0
        vec![0],
        // 0
        vec![0],
        // 0
        vec![0],
        // 0
        vec![0],
        // 0
        vec![0],
    ];
    kani::concrete_playback_run(concrete_vals, c05_aes_reader_new_any_size);
}
