// REPLAY property=C08 harness=c02_central_header_n2_x4 file=h_write.rs feat=base test=kani_concrete_playback_c02_central_header_n2_x4_8685584068510484856
// Counterexample chosen by the solver (CBMC via Kani) for the harness above; re-executed
// against the real code with: ./check --replay <this file>
/// Test generated for harness `write::verif_h::c02_central_header_n2_x4` 
///
/// Check for `assertion`: ""a 32-bit field holds the ZIP64 sentinel but the ZIP64 record present does not carry its value""

#[test]
fn kani_concrete_playback_c02_central_header_n2_x4_8685584068510484856() {
    let concrete_vals: Vec<Vec<u8>> = vec![
        // 1
        vec![1],
        // 0
        vec![0],
        // 8
        vec![8],
        // 0
        vec![0],
        // 65
        vec![65],
        // 127
        vec![127],
        // 253
        vec![253],
        // 0
        vec![0],
        // 1
        vec![1],
        // 1
        vec![1],
        // 32768
        vec![0, 128],
        // 26623
        vec![255, 103],
        // 0
        vec![0, 0],
        // 4294967295
        vec![255, 255, 255, 255],
        // 4294967294ul
        vec![254, 255, 255, 255, 0, 0, 0, 0],
        // 4294967294ul
        vec![254, 255, 255, 255, 0, 0, 0, 0],
        // 4294967294ul
        vec![254, 255, 255, 255, 0, 0, 0, 0],
        // 0
        vec![0, 0, 0, 0],
        // 1
        vec![1],
    ];
    kani::concrete_playback_run(concrete_vals, c02_central_header_n2_x4);
}
