// REPLAY property=C05 harness=c05_open_entry_nopw file=h_read.rs feat=base test=kani_concrete_playback_c05_open_entry_nopw_1390748519408346001
// Counterexample chosen by the solver (CBMC via Kani) for the harness above; re-executed
// against the real code with: ./check --replay <this file>
/// Test generated for harness `read::verif_h::c05_open_entry_nopw` 
///
/// Check for `assertion`: "This is a placeholder message; Kani doesn't support message formatted at runtime"
///
/// # Warning
///
/// Concrete playback tests combined with stubs or contracts is highly
/// experimental, and subject to change.
///
/// The original harness has stubs which are not applied to this test.
/// This may cause a mismatch of non-deterministic values if the stub
/// creates any non-deterministic value.
/// The execution path may also differ, which can be used to refine the stub
/// logic.

#[test]
fn kani_concrete_playback_c05_open_entry_nopw_1390748519408346001() {
    let concrete_vals: Vec<Vec<u8>> = vec![
        // 255
        vec![255],
        // 255
        vec![255],
        // 255
        vec![255],
        // 255
        vec![255],
        // 255
        vec![255],
        // 255
        vec![255],
        // 255
        vec![255],
        // 255
        vec![255],
        // 255
        vec![255],
        // 255
        vec![255],
        // 255
        vec![255],
        // 255
        vec![255],
        // 255
        vec![255],
        // 255
        vec![255],
        // 255
        vec![255],
        // 255
        vec![255],
        // 255
        vec![255],
        // 255
        vec![255],
        // 255
        vec![255],
        // 255
        vec![255],
        // 255
        vec![255],
        // 255
        vec![255],
        // 255
        vec![255],
        // 255
        vec![255],
        // 255
        vec![255],
        // 255
        vec![255],
        // 255
        vec![255],
        // 255
        vec![255],
        // 255
        vec![255],
        // 255
        vec![255],
        // 255
        vec![255],
        // 255
        vec![255],
        // 255
        vec![255],
        // 255
        vec![255],
        // 255
        vec![255],
        // 255
        vec![255],
        // 255
        vec![255],
        // 255
        vec![255],
        // 255
        vec![255],
        // 255
        vec![255],
        // 255
        vec![255],
        // 255
        vec![255],
        // 255
        vec![255],
        // 255
        vec![255],
        // 255
        vec![255],
        // 255
        vec![255],
        // 255
        vec![255],
        // 255
        vec![255],
        // 255
        vec![255],
        // 255
        vec![255],
        // 255
        vec![255],
        // 255
        vec![255],
        // 255
        vec![255],
        // 255
        vec![255],
        // 255
        vec![255],
        // 255
        vec![255],
        // 255
        vec![255],
        // 255
        vec![255],
        // 255
        vec![255],
        // 255
        vec![255],
        // 255
        vec![255],
        // 255
        vec![255],
        // 255
        vec![255],
        // 255
        vec![255],
        // 1
        vec![1, 0],
        // 2
        vec![2, 0],
        // 4294967295
        vec![255, 255, 255, 255],
        // 15
        vec![15, 0, 0, 0],
        // 0
        vec![0, 0],
        // 0
        vec![0],
        // 1
        vec![1],
        // 6
        vec![6],
        // 4294967295
        vec![255, 255, 255, 255],
    ];
    kani::concrete_playback_run(concrete_vals, c05_open_entry_nopw);
}
