// REPLAY property=C15 harness=c09_zipcrypto_read_chunking file=h_zipcrypto.rs feat=base test=kani_concrete_playback_c09_zipcrypto_read_chunking_8413473338606036013
// Counterexample chosen by the solver (CBMC via Kani) for the harness above; re-executed
// against the real code with: ./check --replay <this file>
/// Test generated for harness `zipcrypto::verif_h::c09_zipcrypto_read_chunking` 
///
/// Check for `assertion`: "assertion failed: n < 2 || got[1] == want[1]"

#[test]
fn kani_concrete_playback_c09_zipcrypto_read_chunking_8413473338606036013() {
    let concrete_vals: Vec<Vec<u8>> = vec![
        // 4294967295
        vec![255, 255, 255, 255],
        // 4294967295
        vec![255, 255, 255, 255],
        // 4294967295
        vec![255, 255, 255, 255],
        // 255
        vec![255],
        // 255
        vec![255],
        // 255
        vec![255],
        // 18446744073709551612ul
        vec![252, 255, 255, 255, 255, 255, 255, 255],
        // 2ul
        vec![2, 0, 0, 0, 0, 0, 0, 0],
        // 1ul
        vec![1, 0, 0, 0, 0, 0, 0, 0],
        // 0ul
        vec![0, 0, 0, 0, 0, 0, 0, 0],
        // 0ul
        vec![0, 0, 0, 0, 0, 0, 0, 0],
    ];
    kani::concrete_playback_run(concrete_vals, c09_zipcrypto_read_chunking);
}
