// REPLAY property=C11 harness=c11_writer_fault_k017 file=h_write.rs feat=base test=kani_concrete_playback_c11_writer_fault_k017_5829694293320979269
// Counterexample chosen by the solver (CBMC via Kani) for the harness above; re-executed
// against the real code with: ./check --replay <this file>
/// Test generated for harness `write::verif_h::c11_writer_fault_k017` 
///
/// Check for `assertion`: "attempt to subtract with overflow"
///
/// # Warning
///
/// Concrete playback tests combined with stubs or contracts is highly
/// experimental, and subject to change.
///
/// The original harness has stubs which are not applied to this test.
/// This may cause a mismatch of non-deterministic values if the stub
/// creates any non-deterministic value.
/// The execution path may also differ, which can be used to refine the stub
/// logic.

#[test]
fn kani_concrete_playback_c11_writer_fault_k017_5829694293320979269() {
    let concrete_vals: Vec<Vec<u8>> = vec![
        // 0
        vec![0],
        // 0
        vec![0],
        // 0
        vec![0, 0],
        // 0
        vec![0, 0],
        // 0
        vec![0, 0, 0, 0],
        // 0
        vec![0, 0],
        // 0
        vec![0, 0],
        // 0
        vec![0, 0, 0, 0],
    ];
    kani::concrete_playback_run(concrete_vals, c11_writer_fault_k017);
}
