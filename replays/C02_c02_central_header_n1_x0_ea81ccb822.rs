// REPLAY property=C02 harness=c02_central_header_n1_x0 file=h_write.rs feat=base test=kani_concrete_playback_c02_central_header_n1_x0_1829567807495439325
// Counterexample chosen by the solver (CBMC via Kani) for the harness above; re-executed
// against the real code with: ./check --replay <this file>
/// Test generated for harness `write::verif_h::c02_central_header_n1_x0` 
///
/// Check for `assertion`: ""a 32-bit field holds the ZIP64 sentinel but the ZIP64 record present does not carry its value""

#[test]
fn kani_concrete_playback_c02_central_header_n1_x0_1829567807495439325() {
    let concrete_vals: Vec<Vec<u8>> = vec![
        // 0
        vec![0],
        // 184
        vec![184],
        // 255
        vec![255],
        // 0
        vec![0],
        // 1
        vec![1],
        // 65280
        vec![0, 255],
        // 34815
        vec![255, 135],
        // 255
        vec![255, 0],
        // 4278190080
        vec![0, 0, 0, 255],
        // 4294967295ul
        vec![255, 255, 255, 255, 0, 0, 0, 0],
        // 8589934591ul
        vec![255, 255, 255, 255, 1, 0, 0, 0],
        // 18446744073709551615ul
        vec![255, 255, 255, 255, 255, 255, 255, 255],
        // 255
        vec![255, 0, 0, 0],
        // 1
        vec![1],
    ];
    kani::concrete_playback_run(concrete_vals, c02_central_header_n1_x0);
}
